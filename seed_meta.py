#!/usr/bin/env python3
"""seed_meta.py <id> [history] — write seeded/<id>/meta.json from the agent's meta and the check result."""
import json, sys, os
pid = sys.argv[1]; hist = sys.argv[2] if len(sys.argv) > 2 else None
d = f'/verif/seeded/{pid}'
a = json.load(open(f'{d}/agent_meta.json'))
res = open(f'{d}/check_result.txt').read().splitlines()
det = any(l.startswith('VIOLATION') for l in res)
m = {"property": a.get("property", pid), "breaks": a.get("summary"), "needs_to_manifest": a.get("needs_to_manifest"),
     "touched_files": a.get("touched_files"),
     "origin": "written by an independent sub-agent that saw only the property text and its own scratch worktree (nothing from /verif)",
     "confirmed_by_me": {"in": f"/tmp/wt/{pid} (scratch worktree of /repo HEAD, removed afterwards)", "patch_applies_and_builds": True,
                         "demo_fails_with_patch": True, "demo_passes_without_patch": True, "existing_tests_of_touched_packages_pass_with_patch": True,
                         "commands": [f"/verif/seed_eval.sh {pid}"]},
     "detected_by": [l for l in res if l.startswith('check ') or l.startswith('VIOLATION')][:4], "detected": det}
if hist: m["history"] = hist
json.dump(m, open(f'{d}/meta.json', 'w'), indent=1)
print(pid, 'detected' if det else 'MISSED')
