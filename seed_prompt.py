#!/usr/bin/env python3
"""seed_prompt.py <Cxx>... — create scratch worktrees /tmp/wt/<Cxx> and self-contained prompts /tmp/seed_prompt_<Cxx>.txt
for independent sub-agents that seed a regression (they see only the property text, never /verif)."""
import json, sys, subprocess, os
props = {json.loads(l)['id']: json.loads(l) for l in open('/verif/properties.jsonl')}
T = open('/verif/seed_prompt_template.txt').read()
for pid in sys.argv[1:]:
    p = props[pid]
    wt = f'/tmp/wt/{pid}'
    if not os.path.isdir(wt):
        subprocess.check_call(['git', '-C', '/repo', 'worktree', 'add', '--detach', '-q', wt, 'HEAD'])
    files = ', '.join(p['anchors']['files'])
    s = T.replace('@ID@', pid).replace('@TITLE@', p['title']).replace('@STATEMENT@', p['statement']).replace('@OVER@', p['quantifier']['text']).replace('@FILES@', files)
    open(f'/tmp/seed_prompt_{pid}.txt', 'w').write(s)
    print(pid, 'ready')
