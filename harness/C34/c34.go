package tracing

// C34 — aggregate tracers compute exact statistics.
// k tasks with symbolic start/end times; the interleaving of the 2k events is
// drawn by forking (every well-formed order), times are non-decreasing solver
// variables, the filter passes a symbolic subset. Integer encoding.

import (
	"github.com/sarchlab/akita/v5/internal/verifrt"
	"github.com/sarchlab/akita/v5/timing"
)

type c34Event struct {
	task  int
	start bool
	t     uint64
}

type c34Stream struct {
	k       int
	events  []c34Event
	include []bool
	startT  []uint64
	endT    []uint64
}

// c34Draw draws a time-ordered stream: at each step either a not-yet-started
// task starts or a running task ends; times never decrease.
func c34Draw(k int) *c34Stream {
	s := &c34Stream{k: k, include: make([]bool, k), startT: make([]uint64, k), endT: make([]uint64, k)}
	state := make([]int, k) // 0 = not started, 1 = running, 2 = ended
	now := uint64(0)
	for step := 0; step < 2*k; step++ {
		var cands []c34Event
		for i := 0; i < k; i++ {
			if state[i] == 0 {
				if i == 0 || state[i-1] > 0 { // tasks start in id order (ids are interchangeable)
					cands = append(cands, c34Event{task: i, start: true})
				}
			} else if state[i] == 1 {
				cands = append(cands, c34Event{task: i, start: false})
			}
		}
		ev := cands[verifrt.Choice("next", len(cands))]
		now = now + verifrt.Uint64Range("dt", 0, 1<<32) // non-decreasing time
		ev.t = now
		if ev.start {
			state[ev.task] = 1
			s.startT[ev.task] = now
		} else {
			state[ev.task] = 2
			s.endT[ev.task] = now
		}
		s.events = append(s.events, ev)
	}
	for i := 0; i < k; i++ {
		s.include[i] = verifrt.Choice("include", 2) == 1
	}
	return s
}

func (s *c34Stream) filter() TaskFilter {
	return func(t TaskStart) bool { return s.include[int(t.ID)-1] }
}

func (s *c34Stream) feed(tr Tracer) {
	for _, ev := range s.events {
		if ev.start {
			tr.StartTask(TaskStart{ID: uint64(ev.task + 1), Kind: "k", What: "w", Time: timing.VTimeInPicoSec(ev.t)})
		} else {
			tr.EndTask(TaskEnd{ID: uint64(ev.task + 1), Time: timing.VTimeInPicoSec(ev.t)})
		}
	}
}

func (s *c34Stream) sum() (total uint64, count uint64) {
	for i := 0; i < s.k; i++ {
		if s.include[i] {
			total += s.endT[i] - s.startT[i]
			count++
		}
	}
	return
}

// union is the measure of the union of the included intervals, by a sweep over
// the (already time-ordered) events.
func (s *c34Stream) union() uint64 {
	active := 0
	var busy, last uint64
	for _, ev := range s.events {
		if !s.include[ev.task] {
			continue
		}
		if active > 0 {
			busy += ev.t - last
		}
		last = ev.t
		if ev.start {
			active++
		} else {
			active--
		}
	}
	return busy
}

func VerifC34_Total() {
	s := c34Draw(verifrt.Bound("tasks", 3, 4))
	tr := NewTotalTimeTracer(s.filter())
	s.feed(tr)
	total, _ := s.sum()
	verifrt.Observe("total", uint64(tr.TotalTime()))
	verifrt.Assert(uint64(tr.TotalTime()) == total, "total-is-sum-of-durations")
	verifrt.Cover("end")
}

func VerifC34_Average() {
	s := c34Draw(verifrt.Bound("tasks", 3, 4))
	tr := NewAverageTimeTracer(s.filter())
	s.feed(tr)
	total, count := s.sum()
	verifrt.Assert(tr.TotalCount() == count, "average-count")
	if count > 0 {
		verifrt.Observe("average", uint64(tr.AverageTime()))
		verifrt.Assert(uint64(tr.AverageTime()) == total/count, "average-is-sum-over-count-rounded-down")
		verifrt.Cover("nonempty")
	}
	verifrt.Cover("end")
}

func VerifC34_Busy() {
	s := c34Draw(verifrt.Bound("tasks", 3, 4))
	tr := NewBusyTimeTracer(s.filter())
	s.feed(tr)
	verifrt.Observe("busy", uint64(tr.BusyTime()))
	verifrt.Assert(uint64(tr.BusyTime()) == s.union(), "busy-is-length-of-union")
	verifrt.Cover("end")
}

// VerifC34_TagCount: per tag name, how many tags were recorded and how many
// distinct tracked tasks carried it.
func VerifC34_TagCount() {
	names := []string{"hit", "miss"}
	include := []bool{verifrt.Choice("include", 2) == 1, verifrt.Choice("include", 2) == 1}
	tr := NewTagCountTracer(func(t TaskStart) bool { return include[int(t.ID)-1] })
	state := []int{0, 0}
	carried := [2][2]bool{}
	var wantTags, wantTasks [2]uint64
	steps := verifrt.Bound("steps", 5, 6)
	for i := 0; i < steps; i++ {
		task := verifrt.Choice("task", 2)
		switch verifrt.Choice("op", 3) {
		case 0:
			if state[task] == 0 {
				tr.StartTask(TaskStart{ID: uint64(task + 1)})
				state[task] = 1
			}
		case 1:
			if state[task] == 1 {
				tr.EndTask(TaskEnd{ID: uint64(task + 1)})
				state[task] = 2
			}
		case 2:
			n := verifrt.Choice("name", 2)
			tr.AddTaskTag(TaskTag{TaskID: uint64(task + 1), What: names[n]})
			wantTags[n]++
			if state[task] == 1 && include[task] && !carried[task][n] {
				carried[task][n] = true
				wantTasks[n]++
			}
			verifrt.Cover("tagged")
		}
	}
	for n := range names {
		verifrt.Assert(tr.GetTagCount(names[n]) == wantTags[n], "tag-count")
		verifrt.Assert(tr.GetTaskCount(names[n]) == wantTasks[n], "distinct-tracked-tasks-with-tag")
	}
	verifrt.Cover("end")
}
