package mmu

// C25 (fragment: MMU walk) — the response carries the page the table maps the
// request's (process, virtual page) to; every request is answered once.

import (
	"github.com/sarchlab/akita/v5/internal/verifrt"
	"github.com/sarchlab/akita/v5/mem/vm"
	"github.com/sarchlab/akita/v5/mem/vm/vmprotocol"
	"github.com/sarchlab/akita/v5/messaging"
	"github.com/sarchlab/akita/v5/modeling"
	"github.com/sarchlab/akita/v5/timing"
)

func VerifC25_MMUWalk() {
	engine := timing.NewSerialEngine()
	pt := vm.NewPageTable(12)
	spec := DefaultSpec()
	spec.Latency = verifrt.Choice("latency", 3)
	comp := MakeBuilder().WithRegistrar(modeling.NewStandaloneRegistrar(engine)).WithSpec(spec).WithResources(Resources{PageTable: pt}).Build("MMU")
	wire := &vpWire{}
	mk := func(name string) messaging.Port {
		p := messaging.NewPort(comp, 4, 4, "MMU."+name)
		p.SetConnection(wire)
		comp.AssignPort(name, p)
		return p
	}
	top := mk("Top")
	mk("Control")
	type ent struct {
		pid   vm.PID
		page  vm.Page
	}
	var pages []ent
	for i := 0; i < 2; i++ {
		pid := vm.PID(1 + verifrt.Choice("pid", 2))
		v := verifrt.Uint64("vaddr")
		verifrt.Assume(v&0xfff == 0)
		for _, o := range pages {
			verifrt.Assume(!(o.pid == pid && o.page.VAddr == v))
		}
		pg := vm.Page{PID: pid, VAddr: v, PAddr: verifrt.Uint64("paddr"), PageSize: 4096, Valid: true, DeviceID: verifrt.Uint64("dev")}
		pt.Insert(pg)
		pages = append(pages, ent{pid, pg})
	}
	// requests hit one of the mapped pages at an arbitrary offset
	nReq := 2
	ids := []uint64{}
	wants := []vm.Page{}
	for i := 0; i < nReq; i++ {
		e := pages[verifrt.Choice("target", len(pages))]
		off := verifrt.Uint64Range("offset", 0, 4095)
		m := vmprotocol.TranslationReq{VAddr: e.page.VAddr + off, PID: e.pid, DeviceID: 1}
		m.ID = timing.GetIDGenerator().Generate()
		m.Src, m.Dst = []messaging.RemotePort{"TLB0.Bottom", "TLB1.Bottom"}[i%2], top.AsRemote()
		top.Deliver(m)
		ids = append(ids, m.ID)
		wants = append(wants, e.page)
	}
	got := make([]int, nReq)
	for tick := 0; tick < 10; tick++ {
		comp.Tick()
		for top.PeekOutgoing() != nil {
			rsp := top.RetrieveOutgoing().(vmprotocol.TranslationRsp)
			for i, id := range ids {
				if rsp.RspTo == id {
					got[i]++
					verifrt.Assert(rsp.Page == wants[i], "response-carries-the-mapped-page")
					verifrt.Assert(rsp.Dst == []messaging.RemotePort{"TLB0.Bottom", "TLB1.Bottom"}[i%2], "answered-to-its-requester")
				}
			}
		}
	}
	for i := range got {
		verifrt.Assert(got[i] == 1, "every-translation-answered-exactly-once")
	}
	verifrt.Cover("end")
}
