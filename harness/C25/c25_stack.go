package addresstranslator

// C25 (fragment: an assembled translation stack on the real engine) — an agent,
// the address translator, a TLB, the MMU with a real page table and a memory
// sink, wired by a real direct connection and run by the real serial engine.
// Accesses of two processes at symbolic in-page offsets reach the physical
// address the page table maps their page to (offset preserved) and are answered
// exactly once; after a page-table change followed by drain / invalidate /
// enable of the TLB no access uses the old mapping.

import (
	"github.com/sarchlab/akita/v5/internal/verifrt"
	"github.com/sarchlab/akita/v5/mem"
	"github.com/sarchlab/akita/v5/mem/memcontrolprotocol"
	"github.com/sarchlab/akita/v5/mem/memprotocol"
	"github.com/sarchlab/akita/v5/mem/vm"
	"github.com/sarchlab/akita/v5/mem/vm/mmu"
	"github.com/sarchlab/akita/v5/mem/vm/mmuCache"
	"github.com/sarchlab/akita/v5/mem/vm/tlb"
	"github.com/sarchlab/akita/v5/messaging"
	"github.com/sarchlab/akita/v5/modeling"
	"github.com/sarchlab/akita/v5/noc/directconnection"
	"github.com/sarchlab/akita/v5/timing"
)

type c25Access struct {
	id       uint64
	pid      vm.PID
	vaddr    uint64
	want     uint64 // physical address the access must reach
	sent     bool
	answered int
	reached  int
}

// c25Agent issues the accesses one after another and drives the TLB's control port.
type c25Agent struct {
	*modeling.TickingComponent
	port, ctrl messaging.Port
	accs       []*c25Access
	next, lim  int
	ctrlQueue  []memcontrolprotocol.Command
	ctrlArgs   [][]uint64
	ctrlWait   bool
	ctrlAcks   int
	ctrlOK     bool
	ticks      int
	maxInflight int
}

func (a *c25Agent) Tick() bool {
	a.ticks++
	progress := false
	for {
		rsp := a.port.RetrieveIncoming()
		if rsp == nil {
			break
		}
		progress = true
		found := false
		for _, x := range a.accs {
			if x.sent && rsp.Meta().RspTo == x.id {
				found = true
				x.answered++
			}
		}
		verifrt.Assert(found, "response-answers-an-access")
	}
	for {
		rsp := a.ctrl.RetrieveIncoming()
		if rsp == nil {
			break
		}
		progress = true
		r, ok := rsp.(memcontrolprotocol.Rsp)
		a.ctrlOK = a.ctrlOK && ok && r.Success
		a.ctrlAcks++
		a.ctrlWait = false
	}
	inflight := 0
	for _, x := range a.accs {
		if x.sent && x.answered == 0 {
			inflight++
		}
	}
	if len(a.ctrlQueue) > 0 && !a.ctrlWait && inflight == 0 && a.next == a.lim && a.ctrl.CanSend() {
		m := memcontrolprotocol.Req{Command: a.ctrlQueue[0], Addresses: a.ctrlArgs[0]}
		m.ID, m.Src, m.Dst = timing.GetIDGenerator().Generate(), a.ctrl.AsRemote(), "TLB.Control"
		a.ctrl.Send(m)
		a.ctrlQueue, a.ctrlArgs = a.ctrlQueue[1:], a.ctrlArgs[1:]
		a.ctrlWait = true
		progress = true
	}
	if a.next < a.lim && a.port.CanSend() && inflight < a.maxInflight {
		x := a.accs[a.next]
		m := memprotocol.ReadReq{Address: x.vaddr, AccessByteSize: 4, PID: x.pid}
		m.ID, m.Src, m.Dst = x.id, a.port.AsRemote(), "AT.Top"
		m.TrafficBytes, m.TrafficClass = 12, "req"
		a.port.Send(m)
		x.sent = true
		a.next++
		progress = true
	}
	// give up waiting after 300 cycles: a lost request then shows as an unanswered access
	return progress || ((inflight > 0 || a.ctrlWait) && a.ticks < 300)
}

// c25Mem is the memory behind the translator: it records where accesses arrive.
type c25Mem struct {
	*modeling.TickingComponent
	port messaging.Port
	accs *[]*c25Access
}

func (m *c25Mem) Tick() bool {
	req := m.port.PeekIncoming()
	if req == nil {
		return false
	}
	if !m.port.CanSend() {
		return true
	}
	m.port.RetrieveIncoming()
	rd, ok := req.(memprotocol.ReadReq)
	verifrt.Assert(ok, "memory-receives-the-translated-read")
	if ok {
		hit := false
		for _, x := range *m.accs {
			if x.sent && x.reached == 0 && !hit && rd.Address == x.want && rd.AccessByteSize == 4 {
				x.reached++
				hit = true
			}
		}
		verifrt.Assert(hit, "access-reaches-the-physical-address-the-page-table-maps")
		rsp := memprotocol.DataReadyRsp{Data: []byte{0, 0, 0, 0}}
		rsp.ID, rsp.Src, rsp.Dst, rsp.RspTo = timing.GetIDGenerator().Generate(), m.port.AsRemote(), rd.Src, rd.ID
		rsp.TrafficBytes, rsp.TrafficClass = 16, "rsp"
		m.port.Send(rsp)
	}
	return true
}

func VerifC25_Stack() {
	engine := timing.NewSerialEngine()
	reg := modeling.NewStandaloneRegistrar(engine)
	port := func(c messaging.Component, name string) messaging.Port { return messaging.NewPort(c, 4, 4, name) }
	conn := directconnection.MakeBuilder().WithRegistrar(reg).Build("Conn")

	pt := vm.MakePageTableBuilder().WithLog2PageSize(12).Build("PT")
	type pg struct {
		pid   vm.PID
		vaddr uint64
		frame uint64
	}
	pages := []pg{{1, 0x1000, 0}, {1, 0x2000, 0}, {2, 0x1000, 0}}
	for i := range pages {
		pages[i].frame = verifrt.Uint64Range("frame", 1, 1<<20) << 12
		pt.Insert(vm.Page{PID: pages[i].pid, VAddr: pages[i].vaddr, PAddr: pages[i].frame, PageSize: 4096, Valid: true, DeviceID: 1})
	}

	mmuSpec := mmu.DefaultSpec()
	mmuSpec.Latency = 1 + verifrt.Choice("walk-latency", 2)
	mmuSpec.MaxRequestsInFlight = 4
	iommu := mmu.MakeBuilder().WithRegistrar(reg).WithSpec(mmuSpec).WithResources(mmu.Resources{PageTable: pt}).Build("MMU")
	for _, n := range []string{"Top", "Control"} {
		p := port(iommu, "MMU."+n)
		iommu.AssignPort(n, p)
		conn.PlugIn(p)
	}
	walker := messaging.RemotePort("MMU.Top")
	if verifrt.Choice("mmu-cache", 2) == 1 {
		// an MMU cache between the TLB and the MMU
		mcSpec := mmuCache.DefaultSpec()
		mcSpec.LatencyPerLevel = 1
		mcSpec.NumReqPerCycle = 1
		mc := mmuCache.MakeBuilder().WithRegistrar(reg).WithSpec(mcSpec).
			WithResources(mmuCache.Resources{LowModulePort: "MMU.Top", UpModulePort: "TLB.Bottom"}).Build("MMUC")
		for _, n := range []string{"Top", "Bottom", "Control"} {
			p := port(mc, "MMUC."+n)
			mc.AssignPort(n, p)
			conn.PlugIn(p)
		}
		walker = "MMUC.Top"
		verifrt.Cover("mmu-cache")
	}
	tlbSpec := tlb.DefaultSpec()
	tlbSpec.NumSets, tlbSpec.NumWays, tlbSpec.MSHRSize, tlbSpec.NumReqPerCycle, tlbSpec.Latency = 1, 2, 2, 1, 1
	theTLB := tlb.MakeBuilder().WithRegistrar(reg).WithSpec(tlbSpec).
		WithResources(tlb.Resources{TranslationProviderMapper: &mem.SinglePortMapper{Port: walker}}).Build("TLB")
	for _, n := range []string{"Top", "Bottom", "Control"} {
		p := port(theTLB, "TLB."+n)
		theTLB.AssignPort(n, p)
		conn.PlugIn(p)
	}
	atSpec := DefaultSpec()
	atSpec.NumReqPerCycle = 1
	at := MakeBuilder().WithRegistrar(reg).WithSpec(atSpec).WithResources(Resources{
		MemProviderMapper:         &mem.SinglePortMapper{Port: "Mem.Port"},
		TranslationProviderMapper: &mem.SinglePortMapper{Port: "TLB.Top"},
	}).Build("AT")
	for _, n := range []string{"Top", "Bottom", "Translation", "Control"} {
		p := port(at, "AT."+n)
		at.AssignPort(n, p)
		conn.PlugIn(p)
	}
	agent := &c25Agent{ctrlOK: true, maxInflight: 1 + verifrt.Choice("accesses-in-flight", 2)}
	agent.TickingComponent = modeling.NewTickingComponent("Agent", engine, 1*timing.GHz, agent)
	agent.port, agent.ctrl = port(agent, "Agent.Port"), port(agent, "Agent.Ctrl")
	conn.PlugIn(agent.port)
	conn.PlugIn(agent.ctrl)
	sink := &c25Mem{accs: &agent.accs}
	sink.TickingComponent = modeling.NewTickingComponent("Mem", engine, 1*timing.GHz, sink)
	sink.port = port(sink, "Mem.Port")
	conn.PlugIn(sink.port)

	newAccess := func() *c25Access {
		p := pages[verifrt.Choice("page", len(pages))]
		off := verifrt.Uint64Range("offset", 0, 4092)
		return &c25Access{id: timing.GetIDGenerator().Generate(), pid: p.pid, vaddr: p.vaddr + off, want: p.frame + off}
	}
	// phase 1: accesses of both processes (three pages over a two-way TLB)
	n1 := verifrt.Bound("accesses", 4, 5)
	for i := 0; i < n1; i++ {
		agent.accs = append(agent.accs, newAccess())
	}
	agent.lim = n1
	agent.TickLater()
	verifrt.Assert(engine.Run() == nil, "run")
	// phase 2: page (1, 0x1000) moves to another frame; the TLB is drained, invalidated, enabled
	if verifrt.Choice("remap", 2) == 1 {
		newFrame := verifrt.Uint64Range("new-frame", 1, 1<<20) << 12
		verifrt.Assume(newFrame != pages[0].frame)
		pages[0].frame = newFrame
		pt.Update(vm.Page{PID: 1, VAddr: 0x1000, PAddr: newFrame, PageSize: 4096, Valid: true, DeviceID: 1})
		agent.ctrlQueue = []memcontrolprotocol.Command{memcontrolprotocol.CmdDrain, memcontrolprotocol.CmdInvalidate, memcontrolprotocol.CmdEnable}
		agent.ctrlArgs = [][]uint64{nil, {0x1000}, nil}
		agent.TickLater()
		verifrt.Assert(engine.Run() == nil, "run-control")
		verifrt.Assert(agent.ctrlAcks == 3 && agent.ctrlOK, "drain-invalidate-enable-acknowledged")
		p := pages[0]
		off := verifrt.Uint64Range("offset", 0, 4092)
		agent.accs = append(agent.accs, &c25Access{id: timing.GetIDGenerator().Generate(), pid: p.pid, vaddr: p.vaddr + off, want: p.frame + off})
		agent.lim = len(agent.accs)
		agent.TickLater()
		verifrt.Assert(engine.Run() == nil, "run-after-remap")
		verifrt.Cover("remapped")
	}
	for _, x := range agent.accs {
		verifrt.Assert(x.sent && x.answered == 1, "every-access-answered-exactly-once")
		verifrt.Assert(x.reached == 1, "every-access-reached-memory-exactly-once")
	}
	verifrt.Cover("end")
}
