package addresstranslator

// C25 (fragment: physical address formation) — a translated access goes to
// PAddr + (virtual address mod page size) with everything else preserved.

import (
	"github.com/sarchlab/akita/v5/internal/verifrt"
	"github.com/sarchlab/akita/v5/mem"
	"github.com/sarchlab/akita/v5/mem/memprotocol"
	"github.com/sarchlab/akita/v5/mem/vm"
	"github.com/sarchlab/akita/v5/messaging"
)

func VerifC25_AddressFormation() {
	log2 := []uint64{12, 16, 21}[verifrt.Choice("log2-page-size", 3)]
	size := uint64(1) << log2
	vaddr := verifrt.Uint64("vaddr")
	paddr := verifrt.Uint64Range("paddr", 0, 1<<60)
	verifrt.Assume(paddr&(size-1) == 0) // frames are page aligned
	page := vm.Page{PID: 3, VAddr: addrToPageID(vaddr, log2), PAddr: paddr, PageSize: size, Valid: true}
	verifrt.Assert(page.VAddr <= vaddr && vaddr-page.VAddr < size && page.VAddr&(size-1) == 0, "page-id-is-the-enclosing-aligned-page")
	mapper := &mem.SinglePortMapper{Port: "Mem.Top"}
	var in messaging.Msg
	isRead := verifrt.Choice("read", 2) == 1
	data := []byte{verifrt.Byte("d0"), verifrt.Byte("d1")}
	if isRead {
		r := memprotocol.ReadReq{Address: vaddr, AccessByteSize: verifrt.Uint64("size"), PID: 3}
		r.ID, r.Src, r.Dst = 11, "Core.Port", "AT.Top"
		in = r
	} else {
		wq := memprotocol.WriteReq{Address: vaddr, Data: data, DirtyMask: []bool{true, false}, PID: 3}
		wq.ID, wq.Src, wq.Dst = 11, "Core.Port", "AT.Top"
		in = wq
	}
	st := msgToIncomingReqState(in)
	out := createTranslatedReq(st, page, log2, "AT.Bottom", mapper)
	want := paddr + (vaddr & (size - 1))
	switch o := out.(type) {
	case memprotocol.ReadReq:
		verifrt.Assert(isRead, "kind-preserved")
		verifrt.Assert(o.Address == want, "physical-address-is-frame-plus-page-offset")
		verifrt.Assert(o.AccessByteSize == in.(memprotocol.ReadReq).AccessByteSize, "size-preserved")
		verifrt.Assert(o.Src == "AT.Bottom" && o.Dst == "Mem.Top", "addressed-to-the-memory-provider")
		verifrt.Cover("read")
	case memprotocol.WriteReq:
		verifrt.Assert(!isRead, "kind-preserved")
		verifrt.Assert(o.Address == want, "physical-address-is-frame-plus-page-offset")
		verifrt.Assert(len(o.Data) == 2 && o.Data[0] == data[0] && o.Data[1] == data[1], "data-preserved")
		verifrt.Assert(len(o.DirtyMask) == 2 && o.DirtyMask[0] && !o.DirtyMask[1], "mask-preserved")
		verifrt.Cover("write")
	default:
		verifrt.Assert(false, "translated-request-is-a-memory-request")
	}
	verifrt.Assert(out.Meta().ID != 11, "translated-request-has-a-fresh-id")
	verifrt.Cover("end")
}
