package gmmu

// C25 / C18 (fragment: the GMMU) — translation requests for local pages (walked
// in the GMMU's own page table) and for pages owned by another device (forwarded
// out of the Bottom port, answered by the harness at an arbitrary later tick),
// with a Drain at an arbitrary tick. Every request is answered exactly once, to
// its requester, referencing its ID, with the page the table maps it to; a drain
// acknowledgement leaves the GMMU quiescent.

import (
	"github.com/sarchlab/akita/v5/internal/verifrt"
	"github.com/sarchlab/akita/v5/mem/memcontrolprotocol"
	"github.com/sarchlab/akita/v5/mem/vm"
	"github.com/sarchlab/akita/v5/mem/vm/vmprotocol"
	"github.com/sarchlab/akita/v5/messaging"
	"github.com/sarchlab/akita/v5/modeling"
	"github.com/sarchlab/akita/v5/timing"
)

func VerifC25_GMMU() {
	engine := timing.NewSerialEngine()
	pt := vm.MakePageTableBuilder().WithLog2PageSize(12).Build("PT")
	type pg struct {
		vaddr, frame uint64
		device       uint64
	}
	pages := []pg{{0x1000, 0, 1}, {0x2000, 0, 2}} // device 1 = this GMMU, device 2 = remote
	for i := range pages {
		pages[i].frame = verifrt.Uint64Range("frame", 1, 1<<20) << 12
		pt.Insert(vm.Page{PID: 1, VAddr: pages[i].vaddr, PAddr: pages[i].frame, PageSize: 4096, Valid: true, DeviceID: pages[i].device})
	}
	spec := DefaultSpec()
	spec.DeviceID = 1
	spec.Latency = verifrt.Choice("walk-latency", 2)
	spec.MaxRequestsInFlight = 4
	spec.LowModule = "IOMMU.Top"
	comp := MakeBuilder().WithRegistrar(modeling.NewStandaloneRegistrar(engine)).WithSpec(spec).
		WithResources(Resources{PageTable: pt}).Build("GMMU")
	wire := &vpWire{}
	mk := func(name string) messaging.Port {
		p := messaging.NewPort(comp, 4, 4, "GMMU."+name)
		p.SetConnection(wire)
		comp.AssignPort(name, p)
		return p
	}
	top := mk("Top")
	bottom := mk("Bottom")
	ctrl := mk("Control")

	n := verifrt.Bound("requests", 2, 3)
	type rq struct {
		id       uint64
		page     int
		answered int
	}
	reqs := make([]*rq, n)
	for i := range reqs {
		reqs[i] = &rq{id: timing.GetIDGenerator().Generate(), page: verifrt.Choice("page", 2)}
	}
	drainAt := verifrt.Choice("drain-at-tick", 8) // 7 = no drain
	var drainID uint64
	drainAcked := false
	type pendT struct {
		due int
		msg messaging.Msg
	}
	var pend []pendT
	remoteLat := 1 + 3*verifrt.Choice("remote-latency", 2)
	sent, answered := 0, 0
	for tick := 0; tick < 40; tick++ {
		if sent < n && top.CanDeliver() && (tick >= 5 || verifrt.Choice("send", 2) == 1) && !(drainAt < 7 && tick >= drainAt) {
			r := reqs[sent]
			m := vmprotocol.TranslationReq{VAddr: pages[r.page].vaddr, PID: vm.PID(1), DeviceID: 1}
			m.ID, m.Src, m.Dst = r.id, "L2TLB.Bottom", top.AsRemote()
			top.Deliver(m)
			sent++
		}
		if tick == drainAt && drainAt < 7 {
			m := memcontrolprotocol.Req{Command: memcontrolprotocol.CmdDrain}
			drainID = timing.GetIDGenerator().Generate()
			m.ID, m.Src, m.Dst = drainID, "Driver.Port", ctrl.AsRemote()
			ctrl.Deliver(m)
		}
		comp.Tick()
		// the remote IOMMU
		for bottom.PeekOutgoing() != nil {
			q := bottom.RetrieveOutgoing().(vmprotocol.TranslationReq)
			verifrt.Assert(q.Dst == "IOMMU.Top" && q.VAddr == pages[1].vaddr && q.PID == vm.PID(1), "only-remote-pages-are-forwarded")
			rsp := vmprotocol.TranslationRsp{Page: vm.Page{PID: 1, VAddr: pages[1].vaddr, PAddr: pages[1].frame, PageSize: 4096, Valid: true, DeviceID: 2}}
			rsp.ID, rsp.Src, rsp.Dst, rsp.RspTo = timing.GetIDGenerator().Generate(), "IOMMU.Top", q.Src, q.ID
			pend = append(pend, pendT{tick + remoteLat, rsp})
		}
		for len(pend) > 0 && pend[0].due <= tick && bottom.CanDeliver() {
			bottom.Deliver(pend[0].msg)
			pend = pend[1:]
		}
		for top.PeekOutgoing() != nil {
			rsp, ok := top.RetrieveOutgoing().(vmprotocol.TranslationRsp)
			verifrt.Assert(ok && rsp.Dst == "L2TLB.Bottom", "translation-response-addressed-to-the-requester")
			found := false
			for _, r := range reqs {
				if rsp.RspTo == r.id {
					found = true
					r.answered++
					answered++
					verifrt.Assert(rsp.Page.Valid && rsp.Page.VAddr == pages[r.page].vaddr && rsp.Page.PAddr == pages[r.page].frame && rsp.Page.PID == vm.PID(1), "translation-is-the-page-tables-mapping")
				}
			}
			verifrt.Assert(found, "response-references-the-request-it-answers")
		}
		for ctrl.PeekOutgoing() != nil {
			ack, ok := ctrl.RetrieveOutgoing().(memcontrolprotocol.Rsp)
			verifrt.Assert(ok && ack.RspTo == drainID && ack.Success && ack.Command == memcontrolprotocol.CmdDrain, "drain-acknowledged")
			verifrt.Assert(len(comp.State.WalkingTranslations) == 0 && len(comp.State.RemoteMemReqs) == 0 && len(pend) == 0 && bottom.PeekIncoming() == nil, "drain-acknowledgement-leaves-the-agent-quiescent")
			verifrt.Assert(answered == sent, "every-accepted-request-answered-before-the-drain-acknowledgement")
			drainAcked = true
			verifrt.Cover("drained")
		}
	}
	if drainAt < 7 {
		verifrt.Assert(drainAcked, "drain-eventually-acknowledged")
	} else {
		verifrt.Assert(sent == n, "all-requests-sent")
	}
	for i := 0; i < sent; i++ {
		verifrt.Assert(reqs[i].answered == 1, "every-translation-request-answered-exactly-once")
	}
	verifrt.Cover("end")
}
