package tlb

// C25 (fragment: one TLB level over a page-table walker played by the harness)
// — translation requests for two pages (symbolic
// frames) before, across and after a page-table change that is followed by the
// control sequence pause-or-drain / invalidate / enable. Every request is
// answered exactly once, to its requester, with the mapping of its (process,
// virtual page); a request issued after the invalidation was acknowledged never
// gets the old mapping.

import (
	"github.com/sarchlab/akita/v5/internal/verifrt"
	"github.com/sarchlab/akita/v5/mem"
	"github.com/sarchlab/akita/v5/mem/memcontrolprotocol"
	"github.com/sarchlab/akita/v5/mem/vm"
	"github.com/sarchlab/akita/v5/mem/vm/vmprotocol"
	"github.com/sarchlab/akita/v5/messaging"
	"github.com/sarchlab/akita/v5/modeling"
	"github.com/sarchlab/akita/v5/timing"
)

type c25tReq struct {
	id       uint64
	page     int
	vaddr    uint64
	epoch    int // 0: issued before the change, 1: after the invalidation was acknowledged
	sentTick int
	answered int
	paddr    uint64
}

type c25tPending struct {
	due int
	msg messaging.Msg
}

func VerifC25_TLB() {
	engine := timing.NewSerialEngine()
	spec := DefaultSpec()
	spec.NumSets = 1
	spec.NumWays = 2
	spec.MSHRSize = 2
	spec.NumReqPerCycle = 1
	spec.Latency = 1
	comp := MakeBuilder().WithRegistrar(modeling.NewStandaloneRegistrar(engine)).WithSpec(spec).
		WithResources(Resources{TranslationProviderMapper: &mem.SinglePortMapper{Port: "MMU.Top"}}).Build("TLB")
	wire := &vpWire{}
	mk := func(name string) messaging.Port {
		p := messaging.NewPort(comp, 4, 4, "TLB."+name)
		p.SetConnection(wire)
		comp.AssignPort(name, p)
		return p
	}
	top := mk("Top")
	bottom := mk("Bottom")
	ctrl := mk("Control")

	// the page table: two pages of process 1 with symbolic frames
	vpages := []uint64{0x1000, 0x2000}
	frame := func(name string) uint64 { return verifrt.Uint64Range(name, 1, 1<<20) << 12 }
	table := []uint64{frame("frame-a"), frame("frame-b")}
	newFrame := frame("frame-a-new")
	verifrt.Assume(newFrame != table[0])
	oldFrame := table[0]

	var reqs []*c25tReq
	newReq := func(page, epoch int) *c25tReq {
		r := &c25tReq{id: timing.GetIDGenerator().Generate(), page: page, epoch: epoch}
		r.vaddr = vpages[page] // translation requests carry the page base (the address translator strips the offset: VerifC25_AT)
		reqs = append(reqs, r)
		return r
	}
	sendReq := func(r *c25tReq, tick int) {
		m := vmprotocol.TranslationReq{VAddr: r.vaddr, PID: vm.PID(1), DeviceID: 1}
		m.ID, m.Src, m.Dst = r.id, "Core.Port", top.AsRemote()
		top.Deliver(m)
		r.sentTick = tick
	}
	walkLat := 1 + 2*verifrt.Choice("walk-latency", 2)
	var pend []c25tPending
	answered, ctrlAcks := 0, 0
	pausedWithWalkInFlight := false
	var lastAck memcontrolprotocol.Rsp
	tick := 0
	step := func() {
		comp.Tick()
		// the page-table walker
		for bottom.PeekOutgoing() != nil {
			q := bottom.RetrieveOutgoing().(vmprotocol.TranslationReq)
			pg := -1
			for i, v := range vpages {
				if q.VAddr/4096*4096 == v {
					pg = i
				}
			}
			verifrt.Assert(pg >= 0 && q.PID == vm.PID(1), "walk-request-is-for-a-requested-page")
			if pg < 0 {
				continue
			}
			rsp := vmprotocol.TranslationRsp{Page: vm.Page{PID: q.PID, VAddr: vpages[pg], PAddr: table[pg], PageSize: 4096, Valid: true, DeviceID: 1}}
			rsp.ID, rsp.Src, rsp.Dst, rsp.RspTo = timing.GetIDGenerator().Generate(), "MMU.Top", q.Src, q.ID
			pend = append(pend, c25tPending{tick + walkLat, rsp})
		}
		for len(pend) > 0 && pend[0].due <= tick && bottom.CanDeliver() {
			bottom.Deliver(pend[0].msg)
			pend = pend[1:]
		}
		// the requester
		for top.PeekOutgoing() != nil {
			rsp, ok := top.RetrieveOutgoing().(vmprotocol.TranslationRsp)
			verifrt.Assert(ok, "translation-answered-with-a-translation-response")
			found := false
			for _, r := range reqs {
				if rsp.RspTo != r.id {
					continue
				}
				found = true
				r.answered++
				answered++
				r.paddr = rsp.Page.PAddr
				verifrt.Assert(rsp.Dst == "Core.Port", "response-addressed-to-the-requester")
				verifrt.Assert(rsp.Page.Valid && rsp.Page.PID == vm.PID(1) && rsp.Page.VAddr == vpages[r.page] && rsp.Page.PageSize == 4096, "response-is-for-the-requested-page")
				switch {
				case r.page == 1:
					verifrt.Assert(rsp.Page.PAddr == table[1], "translation-is-the-page-tables-mapping")
				case r.epoch == 1 && pausedWithWalkInFlight:
					// specific history: only paused (not drained) with a walk still in flight
					verifrt.Assert(rsp.Page.PAddr == newFrame, "no-old-mapping-after-invalidation-while-paused-with-a-walk-in-flight")
				case r.epoch == 1:
					verifrt.Assert(rsp.Page.PAddr == newFrame, "no-old-mapping-after-the-acknowledged-invalidation")
				default:
					// issued before the change: the old mapping, or the new one if it was still in flight
					verifrt.Assert(verifrt.Or(rsp.Page.PAddr == oldFrame, rsp.Page.PAddr == newFrame), "translation-is-the-page-tables-mapping")
				}
			}
			verifrt.Assert(found, "response-answers-a-request")
		}
		for ctrl.PeekOutgoing() != nil {
			lastAck = ctrl.RetrieveOutgoing().(memcontrolprotocol.Rsp)
			ctrlAcks++
		}
		tick++
	}
	control := func(cmd memcontrolprotocol.Command, addrs []uint64, pid vm.PID) {
		m := memcontrolprotocol.Req{Command: cmd, Addresses: addrs, PID: pid}
		m.ID, m.Src, m.Dst = timing.GetIDGenerator().Generate(), "Driver.Port", ctrl.AsRemote()
		ctrl.Deliver(m)
		want := ctrlAcks + 1
		for k := 0; k < 40 && ctrlAcks < want; k++ {
			step()
		}
		verifrt.Assert(ctrlAcks == want && lastAck.RspTo == m.ID && lastAck.Success && lastAck.Command == cmd, "control-request-acknowledged")
	}

	// phase 1: one or two requests before the change (page a first, so that the TLB may hold it)
	n1 := 1 + verifrt.Choice("requests-before", 2)
	for i := 0; i < n1; i++ {
		pg := 0
		if i > 0 {
			pg = verifrt.Choice("page", 2)
		}
		sendReq(newReq(pg, 0), tick)
		for k := verifrt.Choice("gap", 3) * 2; k > 0; k-- {
			step()
		}
	}
	// the page table changes while requests may still be in flight ...
	if verifrt.Choice("settle-first", 2) == 1 {
		for k := 0; k < 30 && answered < n1; k++ {
			step()
		}
	}
	table[0] = newFrame
	// ... followed by pause-or-drain, invalidate (arbitrary matching filter), enable
	if verifrt.Choice("drain", 2) == 1 {
		control(memcontrolprotocol.CmdDrain, nil, 0)
		verifrt.Cover("drained")
	} else {
		control(memcontrolprotocol.CmdPause, nil, 0)
		pausedWithWalkInFlight = answered < n1
		verifrt.Cover("paused")
	}
	switch verifrt.Choice("invalidate-filter", 3) {
	case 0:
		control(memcontrolprotocol.CmdInvalidate, nil, 0)
	case 1:
		control(memcontrolprotocol.CmdInvalidate, []uint64{vpages[0] + 0x123}, 0)
	case 2:
		control(memcontrolprotocol.CmdInvalidate, []uint64{vpages[0]}, vm.PID(1))
	}
	control(memcontrolprotocol.CmdEnable, nil, 0)
	// phase 2: a request for the changed page after the acknowledgement
	late := newReq(0, 1)
	sendReq(late, tick)
	for k := 0; k < 60 && answered < len(reqs); k++ {
		step()
	}
	verifrt.Assert(answered == len(reqs), "every-translation-request-answered")
	for _, r := range reqs {
		verifrt.Assert(r.answered == 1, "every-translation-request-answered-exactly-once")
	}
	verifrt.Cover("end")
}

// VerifC25_TLBEvict: two processes share a two-way TLB that is over-subscribed
// by three pages; four requests in any order, one at a time. Every answer is
// the page table's mapping of the requested (process, page) — also after
// conflict evictions across processes.
func VerifC25_TLBEvict() {
	engine := timing.NewSerialEngine()
	spec := DefaultSpec()
	spec.NumSets = 1
	spec.NumWays = 2
	spec.MSHRSize = 2
	spec.NumReqPerCycle = 1
	spec.Latency = 1
	comp := MakeBuilder().WithRegistrar(modeling.NewStandaloneRegistrar(engine)).WithSpec(spec).
		WithResources(Resources{TranslationProviderMapper: &mem.SinglePortMapper{Port: "MMU.Top"}}).Build("TLB")
	wire := &vpWire{}
	mk := func(name string) messaging.Port {
		p := messaging.NewPort(comp, 4, 4, "TLB."+name)
		p.SetConnection(wire)
		comp.AssignPort(name, p)
		return p
	}
	top := mk("Top")
	bottom := mk("Bottom")
	mk("Control")
	type pg struct {
		pid   vm.PID
		vaddr uint64
		frame uint64
	}
	pages := []pg{{1, 0x1000, 0}, {1, 0x2000, 0}, {2, 0x3000, 0}, {2, 0x1000, 0}}
	for i := range pages {
		pages[i].frame = verifrt.Uint64Range("frame", 1, 1<<20) << 12
	}
	nReq := verifrt.Bound("requests", 4, 5)
	walks := 0
	for i := 0; i < nReq; i++ {
		want := pages[verifrt.Choice("page", len(pages))]
		m := vmprotocol.TranslationReq{VAddr: want.vaddr, PID: want.pid, DeviceID: 1}
		m.ID, m.Src, m.Dst = timing.GetIDGenerator().Generate(), "Core.Port", top.AsRemote()
		top.Deliver(m)
		answered := false
		for k := 0; k < 30 && !answered; k++ {
			comp.Tick()
			for bottom.PeekOutgoing() != nil {
				q := bottom.RetrieveOutgoing().(vmprotocol.TranslationReq)
				walks++
				found := false
				for _, p := range pages {
					if p.pid == q.PID && p.vaddr == q.VAddr {
						found = true
						rsp := vmprotocol.TranslationRsp{Page: vm.Page{PID: p.pid, VAddr: p.vaddr, PAddr: p.frame, PageSize: 4096, Valid: true, DeviceID: 1}}
						rsp.ID, rsp.Src, rsp.Dst, rsp.RspTo = timing.GetIDGenerator().Generate(), "MMU.Top", q.Src, q.ID
						bottom.Deliver(rsp)
					}
				}
				verifrt.Assert(found, "walk-request-is-for-the-requested-page")
			}
			for top.PeekOutgoing() != nil {
				rsp := top.RetrieveOutgoing().(vmprotocol.TranslationRsp)
				verifrt.Assert(rsp.RspTo == m.ID && rsp.Dst == "Core.Port", "answer-is-for-the-request")
				verifrt.Assert(rsp.Page.PID == want.pid && rsp.Page.VAddr == want.vaddr && rsp.Page.PAddr == want.frame && rsp.Page.Valid, "translation-is-the-page-tables-mapping-of-process-and-page")
				verifrt.Assert(!answered, "answered-exactly-once")
				answered = true
			}
		}
		verifrt.Assert(answered, "every-translation-request-answered")
	}
	if walks > 2 {
		verifrt.Cover("evicted")
	}
	verifrt.Cover("end")
}
