package timing

// C05 — Pause is a quiescent point. A second goroutine calls Pause/Continue at
// an arbitrary moment of a run (every interleaving within the preemption
// bound is a decision of the explored path): once Pause has returned no
// handler is executing and none starts until Continue; afterwards every event
// is still handled.

import (
	"sync"
	"sync/atomic"

	"github.com/sarchlab/akita/v5/internal/verifrt"
)

func VerifC05_SerialPause() {
	p := vpDraw(verifrt.Bound("events", 2, 3))
	r := vpNewRun(p, false)
	r.yieldInHandler = true
	r.start()
	pauserDone := false
	done := make(chan struct{})
	again := verifrt.Choice("pause-again-at-once", 2) == 1
	go func() {
		verifrt.Jitter(200)
		verifrt.Yield()
		r.e.Pause()
		// Pause has returned: the engine must be quiescent
		verifrt.Assert(!r.inHandler, "no-handler-executing-once-pause-has-returned")
		h0 := len(r.handled)
		verifrt.Yield()
		verifrt.Jitter(200)
		verifrt.Yield()
		verifrt.Assert(!r.inHandler && len(r.handled) == h0, "no-handler-runs-between-pause-and-continue")
		r.e.Continue()
		if again {
			// Continue immediately followed by another Pause: the runner woken by
			// Continue must see the second pause
			r.e.Pause()
			verifrt.Assert(!r.inHandler, "no-handler-executing-once-the-second-pause-has-returned")
			h1 := len(r.handled)
			verifrt.Yield()
			verifrt.Jitter(200)
			verifrt.Yield()
			verifrt.Assert(!r.inHandler && len(r.handled) == h1, "no-handler-runs-during-the-second-pause")
			r.e.Continue()
			verifrt.Cover("paused-twice")
		}
		pauserDone = true
		close(done)
	}()
	verifrt.Jitter(200)
	verifrt.Assert(r.e.Run() == nil, "run")
	<-done // wait for the pauser (blocking: not a scheduling choice)
	if pauserDone {
		// a pause that lands after the run finished leaves nothing to do
		verifrt.Cover("pauser-finished")
	}
	if !r.allHandled() {
		// the run returned because the queue was empty at that moment; nothing may be lost
		verifrt.Assert(r.e.Run() == nil, "run-again")
	}
	verifrt.Assert(r.allHandled() && len(r.handled) == p.n, "every-event-handled-exactly-once-after-continue")
	verifrt.Cover("end")
}

// vpQRun: a program on the parallel engine with a count of running handlers.
type vpQRun struct {
	p        *vpProg
	e        *ParallelEngine
	mu       sync.Mutex
	running  int
	started  int
	finished int
}

func (r *vpQRun) sched(id int) {
	r.e.Schedule(vpEvt{id: id, t: r.p.time[id], sec: r.p.sec[id]})
}

func (r *vpQRun) Handle(e Event) error {
	id := e.(vpEvt).id
	r.mu.Lock()
	r.running++
	r.started++
	r.mu.Unlock()
	verifrt.Yield()
	for _, c := range r.p.children[id] {
		r.sched(c)
	}
	r.mu.Lock()
	r.running--
	r.finished++
	r.mu.Unlock()
	return nil
}

func VerifC05_ParallelPause() {
	p := vpDraw(verifrt.Bound("events", 2, 3))
	r := &vpQRun{p: p, e: NewParallelEngine()}
	r.e.RegisterHandler("vp", r)
	for i := 0; i < p.roots; i++ {
		r.sched(i)
	}
	pauserDone := false
	done := make(chan struct{})
	go func() {
		verifrt.Yield()
		r.e.Pause()
		r.mu.Lock()
		verifrt.Assert(r.running == 0, "no-handler-executing-once-pause-has-returned")
		s0 := r.started
		r.mu.Unlock()
		verifrt.Yield()
		verifrt.Yield()
		r.mu.Lock()
		verifrt.Assert(r.running == 0 && r.started == s0, "no-handler-runs-between-pause-and-continue")
		r.mu.Unlock()
		r.e.Continue()
		pauserDone = true
		close(done)
	}()
	verifrt.Assert(r.e.Run() == nil, "run")
	<-done // wait for the pauser (blocking: not a scheduling choice)
	if pauserDone {
		verifrt.Cover("pauser-finished")
	}
	r.mu.Lock()
	allDone := r.finished == p.n
	r.mu.Unlock()
	if !allDone {
		verifrt.Assert(r.e.Run() == nil, "run-again")
	}
	r.mu.Lock()
	verifrt.Assert(r.finished == p.n && r.started == p.n && r.running == 0, "every-event-handled-exactly-once-after-continue")
	r.mu.Unlock()
	verifrt.Cover("end")
}

// VerifC05_TwoPausers: two goroutines call Pause concurrently while the run is
// in progress; each Pause that has returned finds the engine quiescent.
func VerifC05_TwoPausers() {
	p := vpDraw(1)
	r := vpNewRun(p, false)
	r.yieldInHandler = true
	r.start()
	var left int32 = 2
	done := make(chan struct{})
	for k := 0; k < 2; k++ {
		go func() {
			verifrt.Jitter(100)
			r.e.Pause()
			verifrt.Assert(!r.inHandler, "no-handler-executing-once-any-pause-has-returned")
			h0 := len(r.handled)
			verifrt.Jitter(100)
			verifrt.Yield()
			verifrt.Assert(!r.inHandler && len(r.handled) == h0, "no-handler-runs-while-a-pauser-holds-the-pause")
			if atomic.AddInt32(&left, -1) == 0 {
				r.e.Continue()
				close(done)
			}
		}()
	}
	verifrt.Jitter(100)
	verifrt.Assert(r.e.Run() == nil, "run")
	<-done
	if !r.allHandled() {
		verifrt.Assert(r.e.Run() == nil, "run-again")
	}
	verifrt.Assert(r.allHandled() && len(r.handled) == p.n, "every-event-handled-exactly-once-after-continue")
	verifrt.Cover("end")
}
