package queueing

// C15 — pipelines conserve items, respect lanes and never strand an item.

import "github.com/sarchlab/akita/v5/internal/verifrt"

type c15Item struct {
	ID int    // concrete identity (the pipeline never looks inside an item)
	P  uint64 // symbolic payload
}

// c15Sink accepts at most room items.
type c15Sink struct {
	room int
	got  []c15Item
}

func (s *c15Sink) CanPush() bool { return s.room > 0 }
func (s *c15Sink) PushTyped(it c15Item) {
	if s.room <= 0 {
		panic("push into a full sink")
	}
	s.room--
	s.got = append(s.got, it)
}

// c15State draws an arbitrary pipeline that satisfies the representation invariant:
// 0<=Lane<width, 0<=Stage<numStages, CycleLeft>=0, CycleLeft>0 => Stage==0,
// (Stage,Lane) pairwise distinct.
func c15State(maxW, maxS, maxN, maxDelay int) (*Pipeline[c15Item], []PipelineStage[c15Item]) {
	w := 1 + verifrt.Choice("width", maxW)
	ns := 1 + verifrt.Choice("stages", maxS)
	n := verifrt.Choice("n", maxN+1)
	p := NewPipeline[c15Item](w, ns)
	for i := 0; i < n; i++ {
		st := verifrt.Choice("stage", ns)
		ln := verifrt.Choice("lane", w)
		for _, o := range p.stages {
			verifrt.Assume(!(o.Stage == st && o.Lane == ln))
		}
		cl := 0
		if st == 0 {
			// the remaining delay is a symbolic integer: one path covers every delay
			cl = verifrt.IntRange("cycleleft", 0, maxDelay)
		}
		p.stages = append(p.stages, PipelineStage[c15Item]{Lane: ln, Stage: st, CycleLeft: cl, Item: c15Item{ID: i + 1, P: verifrt.Uint64("payload")}})
	}
	before := append([]PipelineStage[c15Item](nil), p.stages...)
	return &p, before
}

func c15Inv(p *Pipeline[c15Item], tag string) {
	for i, s := range p.stages {
		verifrt.Assert(s.Lane >= 0 && s.Lane < p.width, tag+"-lane-range")
		verifrt.Assert(s.Stage >= 0 && s.Stage < p.numStages, tag+"-stage-range")
		verifrt.Assert(s.CycleLeft >= 0, tag+"-cycleleft-nonneg")
		verifrt.Assert(s.CycleLeft == 0 || s.Stage == 0, tag+"-dwell-only-at-stage0")
		for j := 0; j < i; j++ {
			o := p.stages[j]
			verifrt.Assert(!(o.Stage == s.Stage && o.Lane == s.Lane), tag+"-no-two-items-in-one-slot")
		}
	}
}

func c15Find(list []PipelineStage[c15Item], id int) (PipelineStage[c15Item], int) {
	cnt := 0
	var r PipelineStage[c15Item]
	for _, s := range list {
		if s.Item.ID == id {
			cnt++
			r = s
		}
	}
	return r, cnt
}

func c15Rank(p *Pipeline[c15Item], s PipelineStage[c15Item]) int {
	return (p.numStages - 1 - s.Stage) + s.CycleLeft + 1
}

// VerifC15_TickStep: one Tick from an arbitrary valid state with a sink that
// accepts an arbitrary number of items.
func VerifC15_TickStep() {
	maxN := verifrt.Bound("records", 3, 4)
	p, before := c15State(3, 3, maxN, 1<<30)
	room := verifrt.Choice("room", 4)
	sink := &c15Sink{room: room}
	moved := p.Tick(sink)
	c15Inv(p, "tick")
	changed := len(sink.got) > 0
	for _, b := range before {
		a, inPipe := c15Find(p.stages, b.Item.ID)
		inSink := 0
		for _, g := range sink.got {
			if g.ID == b.Item.ID {
				inSink++
				verifrt.Assert(g.P == b.Item.P, "tick-payload-intact-sink")
			}
		}
		verifrt.Assert(inPipe+inSink == 1, "tick-item-conserved-exactly-once")
		if inPipe == 1 {
			verifrt.Assert(a.Item.P == b.Item.P, "tick-payload-intact-pipe")
			verifrt.Assert(a.Lane == b.Lane, "tick-lane-kept")
			verifrt.Assert(a.Stage == b.Stage || a.Stage == b.Stage+1, "tick-advances-at-most-one-stage")
			verifrt.Assert(a.CycleLeft == b.CycleLeft || a.CycleLeft == b.CycleLeft-1, "tick-delay-counts-down-by-one")
			verifrt.Assert(c15Rank(p, a) <= c15Rank(p, b), "tick-rank-never-increases")
			if a.Stage != b.Stage || a.CycleLeft != b.CycleLeft {
				changed = true
			}
		} else {
			verifrt.Assert(b.Stage == p.numStages-1 && b.CycleLeft == 0, "tick-only-finished-items-leave")
			verifrt.Cover("emitted")
		}
	}
	verifrt.Assert(len(p.stages)+len(sink.got) == len(before), "tick-nothing-created")
	verifrt.Assert(moved == changed, "tick-moved-iff-changed")
	verifrt.Cover("end")
}

// VerifC15_Progress: with a sink that always has room, one Tick removes exactly
// the items of rank 1 and lowers the rank of every other item by exactly 1 —
// so every item leaves exactly (stages + delay) ticks after acceptance.
func VerifC15_Progress() {
	maxN := verifrt.Bound("records", 3, 4)
	p, before := c15State(3, 3, maxN, 1<<30)
	sink := &c15Sink{room: 1 << 20}
	p.Tick(sink)
	for _, b := range before {
		a, inPipe := c15Find(p.stages, b.Item.ID)
		rb := c15Rank(p, b)
		if rb == 1 {
			verifrt.Assert(inPipe == 0, "progress-rank1-leaves")
			verifrt.Cover("left")
		} else {
			verifrt.Assert(inPipe == 1, "progress-others-stay")
			if inPipe == 1 {
				verifrt.Assert(c15Rank(p, a) == rb-1, "progress-rank-decreases-by-one")
			}
			if b.CycleLeft > 0 && p.numStages == 1 {
				verifrt.Cover("one-stage-delay")
			}
		}
	}
	verifrt.Cover("end")
}

// VerifC15_AcceptStep: Accept / AcceptWithDelay from an arbitrary valid state.
func VerifC15_AcceptStep() {
	p, before := c15State(3, 3, 3, 1<<30)
	occupied := 0
	for _, s := range before {
		if s.Stage == 0 {
			occupied++
		}
	}
	can := p.CanAccept()
	verifrt.Assert(can == (occupied < p.width), "canaccept-iff-free-lane-at-stage0")
	if !can {
		verifrt.Cover("full")
		verifrt.Cover("end")
		return
	}
	it := c15Item{ID: 99, P: verifrt.Uint64("payload")}
	d := verifrt.Choice("delay", 3)
	if verifrt.Choice("withdelay", 2) == 1 {
		p.AcceptWithDelay(it, d)
	} else {
		d = 0
		p.Accept(it)
	}
	c15Inv(p, "accept")
	verifrt.Assert(len(p.stages) == len(before)+1, "accept-adds-one")
	a, cnt := c15Find(p.stages, 99)
	verifrt.Assert(cnt == 1, "accept-once")
	verifrt.Assert(a.Stage == 0 && a.CycleLeft == d && a.Item.P == it.P, "accept-at-stage0-with-delay")
	for _, b := range before {
		o, c := c15Find(p.stages, b.Item.ID)
		verifrt.Assert(c == 1 && o == b, "accept-leaves-others-untouched")
	}
	verifrt.Cover("accepted")
	verifrt.Cover("end")
}

// VerifC15_Latency: a single item through s stages with delay d and a sink that
// always has room leaves at tick exactly s+d.
func VerifC15_Latency() {
	s := 1 + verifrt.Choice("stages", 4)
	d := verifrt.Choice("delay", 4)
	w := 1 + verifrt.Choice("width", 2)
	p := NewPipeline[c15Item](w, s)
	pay := verifrt.Uint64("payload")
	p.AcceptWithDelay(c15Item{ID: 1, P: pay}, d)
	sink := &c15Sink{room: 1 << 20}
	left := -1
	for t := 1; t <= s+d+2; t++ {
		p.Tick(sink)
		if left < 0 && len(sink.got) == 1 {
			left = t
		}
	}
	verifrt.Observe("left", left)
	verifrt.Assert(left == s+d, "latency-exactly-stages-plus-delay")
	verifrt.Assert(len(sink.got) == 1 && len(p.stages) == 0, "latency-leaves-exactly-once")
	if len(sink.got) == 1 {
		verifrt.Assert(sink.got[0].P == pay, "latency-payload")
	}
	verifrt.Cover("end")
}

// VerifC15_FIFO: a one-lane pipeline is first-in-first-out under arbitrary
// accept instants, delays and sink stalls; everything accepted leaves once the
// sink has room.
func VerifC15_FIFO() {
	s := 1 + verifrt.Choice("stages", 3)
	p := NewPipeline[c15Item](1, s)
	sink := &c15Sink{}
	nextID := 1
	steps := verifrt.Bound("steps", 5, 7)
	for t := 0; t < steps; t++ {
		if nextID <= 3 && verifrt.Bool("accept") && p.CanAccept() {
			p.AcceptWithDelay(c15Item{ID: nextID}, verifrt.Choice("delay", 2))
			nextID++
		}
		if verifrt.Bool("room") {
			sink.room = 1
		} else {
			sink.room = 0
		}
		p.Tick(sink)
		c15Inv(&p, "fifo")
	}
	// drain: the sink now always has room
	sink.room = 1 << 20
	for t := 0; t < 3*(s+2); t++ {
		p.Tick(sink)
	}
	verifrt.Assert(len(p.stages) == 0, "fifo-nothing-stranded")
	verifrt.Assert(len(sink.got) == nextID-1, "fifo-all-leave-exactly-once")
	for i, g := range sink.got {
		verifrt.Assert(g.ID == i+1, "fifo-order")
	}
	if nextID == 4 {
		verifrt.Cover("three-items")
	}
	verifrt.Cover("end")
}
