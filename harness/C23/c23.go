package datamover

// C23 — data movers copy exactly the requested range.
// The real component (real builder, real ports, all three middlewares) is
// ticked directly; the harness plays the two memories behind the Inside and
// Outside ports (flat byte arrays with symbolic initial content, answering
// after a symbolic delay) and the command processor on the Top port.

import (
	"github.com/sarchlab/akita/v5/hooking"
	"github.com/sarchlab/akita/v5/internal/verifrt"
	"github.com/sarchlab/akita/v5/mem"
	"github.com/sarchlab/akita/v5/mem/datamoverprotocol"
	"github.com/sarchlab/akita/v5/mem/memprotocol"
	"github.com/sarchlab/akita/v5/messaging"
	"github.com/sarchlab/akita/v5/modeling"
	"github.com/sarchlab/akita/v5/timing"
)

const c23MemSize = 32

type c23Conn struct {
	hooking.HookableBase
}

func (c *c23Conn) Name() string                        { return "Wire" }
func (c *c23Conn) PlugIn(port messaging.Port)          {}
func (c *c23Conn) Unplug(port messaging.Port)          {}
func (c *c23Conn) NotifyAvailable(port messaging.Port) {}
func (c *c23Conn) NotifySend()                         {}

type c23Mem struct {
	name    string
	port    messaging.Port
	data    [c23MemSize]byte
	orig    [c23MemSize]byte
	pending []messaging.Msg // responses waiting for their delay / for room
	held    bool            // the head response has already been delayed once
	delays  *int            // remaining delay budget (shared by both memories)
	writes  int
}

func (m *c23Mem) init(tag string) {
	for i := range m.data {
		m.data[i] = verifrt.Byte(tag)
		m.orig[i] = m.data[i]
	}
}

// serve takes every request the mover has sent on this side and answers it.
func (m *c23Mem) serve() bool {
	busy := false
	for m.port.PeekOutgoing() != nil {
		busy = true
		switch req := m.port.RetrieveOutgoing().(type) {
		case memprotocol.ReadReq:
			verifrt.Assert(req.Address+req.AccessByteSize <= c23MemSize, "read-stays-inside-the-memory-model")
			a := int(req.Address)
			rsp := memprotocol.DataReadyRsp{Data: append([]byte(nil), m.data[a:a+int(req.AccessByteSize)]...)}
			rsp.ID = timing.GetIDGenerator().Generate()
			rsp.Src, rsp.Dst, rsp.RspTo = req.Dst, req.Src, req.ID
			m.pending = append(m.pending, rsp)
		case memprotocol.WriteReq:
			verifrt.Assert(req.Address+uint64(len(req.Data)) <= c23MemSize, "write-stays-inside-the-memory-model")
			copy(m.data[int(req.Address):], req.Data)
			m.writes++
			rsp := memprotocol.WriteDoneRsp{}
			rsp.ID = timing.GetIDGenerator().Generate()
			rsp.Src, rsp.Dst, rsp.RspTo = req.Dst, req.Src, req.ID
			m.pending = append(m.pending, rsp)
		default:
			verifrt.Assert(false, "mover-sends-only-read-and-write-requests")
		}
	}
	// answer (possibly later: a symbolic one-tick delay per response)
	for len(m.pending) > 0 && m.port.CanDeliver() {
		if !m.held && *m.delays > 0 && verifrt.Choice("delay", 2) == 1 {
			m.held = true // each response is delayed by at most one tick; bounded number of delays per run
			*m.delays--
			busy = true
			break
		}
		m.port.Deliver(m.pending[0])
		m.pending = m.pending[1:]
		m.held = false
		busy = true
	}
	return busy || len(m.pending) > 0
}

type c23Cfg struct {
	inG, outG, buf uint64
}

var c23Grans = [][2]uint64{{1, 1}, {4, 4}, {2, 4}, {4, 2}, {1, 4}, {4, 1}}

func c23Build() (*Comp, *c23Mem, *c23Mem, messaging.Port, c23Cfg) {
	engine := timing.NewSerialEngine()
	g := c23Grans[verifrt.Choice("granularity", len(c23Grans))]
	cfg := c23Cfg{inG: g[0], outG: g[1], buf: []uint64{4, 8}[verifrt.Choice("buffer", 2)]}
	spec := DefaultSpec()
	spec.BufferSize = cfg.buf
	spec.InsideByteGranularity = cfg.inG
	spec.OutsideByteGranularity = cfg.outG
	dm := MakeBuilder().WithRegistrar(modeling.NewStandaloneRegistrar(engine)).WithSpec(spec).
		WithResources(Resources{InsideMapper: &mem.SinglePortMapper{Port: "InMem.Top"}, OutsideMapper: &mem.SinglePortMapper{Port: "OutMem.Top"}}).
		Build("DM")
	wire := &c23Conn{}
	mk := func(name string) messaging.Port {
		outCap := 4
		if name == "Top" {
			outCap = c23TopOut
		}
		p := messaging.NewPort(dm, 4, outCap, "DM."+name)
		p.SetConnection(wire)
		dm.AssignPort(name, p)
		return p
	}
	top := mk("Top")
	in := &c23Mem{name: "inside", port: mk("Inside")}
	out := &c23Mem{name: "outside", port: mk("Outside")}
	mk("Control")
	budget := verifrt.Bound("delays", 1, 2)
	in.delays, out.delays = &budget, &budget
	in.init("inside-byte")
	out.init("outside-byte")
	return dm, in, out, top, cfg
}

// c23TopOut is the outgoing capacity of the Top port built by c23Build.
var c23TopOut = 4

// VerifC23_Move: one move request, any sides, sizes and granularities.
func VerifC23_Move() {
	dm, in, out, top, cfg := c23Build()
	sides := [][2]string{{"inside", "outside"}, {"outside", "inside"}, {"inside", "inside"}, {"outside", "outside"}}
	nSides := 2
	if verifrt.Thorough() {
		nSides = 4
	}
	sd := sides[verifrt.Choice("sides", nSides)]
	gran := func(side string) uint64 {
		if side == "inside" {
			return cfg.inG
		}
		return cfg.outG
	}
	memOf := func(side string) *c23Mem {
		if side == "inside" {
			return in
		}
		return out
	}
	size := uint64(1 + verifrt.Choice("size", 8))
	dstSlots := 2
	srcAddr := gran(sd[0]) * uint64(verifrt.Choice("src-slot", 2)) // aligned as the mover requires
	dstAddr := 8 + gran(sd[1])*uint64(verifrt.Choice("dst-slot", dstSlots))
	if sd[0] == sd[1] {
		dstAddr += 8
	}
	req := datamoverprotocol.DataMoveRequest{SrcAddress: srcAddr, DstAddress: dstAddr, ByteSize: size,
		SrcSide: datamoverprotocol.DataMovePort(sd[0]), DstSide: datamoverprotocol.DataMovePort(sd[1])}
	req.ID = verifrt.Uint64("req-id")
	req.Src, req.Dst = "CP.Port", top.AsRemote()
	src, dst := memOf(sd[0]), memOf(sd[1])
	var want [8]byte
	for i := uint64(0); i < size; i++ {
		want[i] = src.data[srcAddr+i]
	}
	top.Deliver(req)

	acks := 0
	for tick := 0; tick < 60; tick++ {
		progress := dm.Tick()
		busy := in.serve()
		busy = out.serve() || busy
		for top.PeekOutgoing() != nil {
			rsp, ok := top.RetrieveOutgoing().(datamoverprotocol.DataMoveResponse)
			verifrt.Assert(ok, "top-port-carries-only-move-responses")
			verifrt.Assert(rsp.RspTo == req.ID && rsp.Dst == req.Src, "acknowledgement-answers-the-request")
			acks++
			// at acknowledgement: destination holds the source bytes, nothing else changed
			for i := uint64(0); i < size; i++ {
				verifrt.Assert(dst.data[dstAddr+i] == want[i], "destination-range-holds-the-source-bytes")
			}
			for a := uint64(0); a < c23MemSize; a++ {
				inDst := a >= dstAddr && a < dstAddr+size
				if !inDst {
					verifrt.Assert(dst.data[a] == dst.orig[a], "no-byte-outside-the-destination-range-changed")
				}
				if src != dst {
					verifrt.Assert(src.data[a] == src.orig[a], "source-memory-unchanged")
				}
			}
		}
		if !progress && !busy {
			break
		}
	}
	verifrt.Assert(acks == 1, "exactly-one-acknowledgement")
	verifrt.Assert(!dm.State.CurrentTransaction.Active, "transaction-closed-after-acknowledgement")
	if size%gran(sd[1]) != 0 {
		verifrt.Cover("size-not-multiple-of-destination-granularity")
	}
	verifrt.Cover("end")
}

// VerifC23_TwoMoves: two move requests, the requester takes acknowledgements
// away late from a one-entry Top buffer (back-pressure when the second move
// completes). Each move gets exactly one acknowledgement referencing it.
func VerifC23_TwoMoves() {
	c23TopOut = 1
	dm, in, out, top, cfg := c23Build()
	c23TopOut = 4
	ids := []uint64{7001, 7002}
	hold := 10 * verifrt.Choice("requester-holds-acks-for", 3)
	size := uint64(1 + verifrt.Choice("size", 2))
	for i, id := range ids {
		req := datamoverprotocol.DataMoveRequest{SrcAddress: cfg.inG * uint64(i), DstAddress: 8 + cfg.outG*uint64(i), ByteSize: size,
			SrcSide: datamoverprotocol.DataMovePort("inside"), DstSide: datamoverprotocol.DataMovePort("outside")}
		req.ID = id
		req.Src, req.Dst = "CP.Port", top.AsRemote()
		top.Deliver(req)
	}
	acks := [2]int{}
	firstSeen := -1
	for tick := 0; tick < 120; tick++ {
		progress := dm.Tick()
		busy := in.serve()
		busy = out.serve() || busy
		if top.PeekOutgoing() != nil && firstSeen < 0 {
			firstSeen = tick
		}
		if firstSeen >= 0 && tick >= firstSeen+hold {
			for top.PeekOutgoing() != nil {
				rsp, ok := top.RetrieveOutgoing().(datamoverprotocol.DataMoveResponse)
				verifrt.Assert(ok && rsp.Dst == "CP.Port", "acknowledgement-addressed-to-the-requester")
				found := false
				for i, id := range ids {
					if rsp.RspTo == id {
						acks[i]++
						found = true
					}
				}
				verifrt.Assert(found, "acknowledgement-answers-a-request")
				busy = true
			}
		}
		if !progress && !busy && top.PeekOutgoing() == nil && tick > firstSeen+hold && firstSeen >= 0 {
			break
		}
	}
	verifrt.Assert(acks[0] == 1 && acks[1] == 1, "each-move-acknowledged-exactly-once")
	verifrt.Cover("end")
}
