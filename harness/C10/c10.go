package directconnection

// C10 — direct connections deliver exactly once, intact, in order.
// One Tick of the real connection middleware from an arbitrary state of 2..3
// real ports.

import (
	"github.com/sarchlab/akita/v5/hooking"
	"github.com/sarchlab/akita/v5/internal/verifrt"
	"github.com/sarchlab/akita/v5/messaging"
	"github.com/sarchlab/akita/v5/modeling"
	"github.com/sarchlab/akita/v5/timing"
)

type c10Msg struct {
	messaging.MsgMeta
	tag int
	src int
	dst int
}

func (m *c10Msg) Meta() messaging.MsgMeta { return m.MsgMeta }

type c10Owner struct {
	hooking.HookableBase
	name string
}

func (c *c10Owner) Name() string                                        { return c.name }
func (c *c10Owner) DeclarePort(name string, roles ...*messaging.Role) {}
func (c *c10Owner) AssignPort(name string, port messaging.Port)       {}
func (c *c10Owner) GetPortByName(name string) messaging.Port          { return nil }
func (c *c10Owner) Ports() []messaging.Port                           { return nil }
func (c *c10Owner) NotifyRecv(port messaging.Port)                    {}
func (c *c10Owner) NotifyPortFree(port messaging.Port)                {}

var c10Names = []string{"A.Port", "B.Port", "C.Port"}

func VerifC10_TickStep() {
	engine := timing.NewSerialEngine()
	conn := MakeBuilder().WithRegistrar(modeling.NewStandaloneRegistrar(engine)).Build("Conn")
	n := 2 + verifrt.Choice("ports", 2)
	ports := make([]messaging.Port, n)
	inCap := make([]int, n)
	for i := 0; i < n; i++ {
		if n == 3 && !verifrt.Thorough() {
			inCap[i] = 1 // quick tier: three ports only with capacity-1 buffers
		} else {
			inCap[i] = 1 + verifrt.Choice("incap", 2)
		}
		ports[i] = messaging.NewPort(&c10Owner{name: c10Names[i][:1]}, inCap[i], 2, c10Names[i])
		conn.PlugIn(ports[i])
	}
	tag := 0
	newMsg := func(src, dst int) *c10Msg {
		tag++
		m := &c10Msg{tag: tag, src: src, dst: dst}
		m.ID = verifrt.Uint64("id")
		m.TrafficBytes = verifrt.IntRange("bytes", 0, 1<<16)
		m.RspTo = verifrt.Uint64("rspto")
		m.Src = messaging.RemotePort(c10Names[src])
		m.Dst = messaging.RemotePort(c10Names[dst])
		return m
	}
	// arbitrary pre-state: some messages already delivered, some waiting to be forwarded
	preIn := make([][]*c10Msg, n)
	out := make([][]*c10Msg, n)
	for i := 0; i < n; i++ {
		k := verifrt.Choice("prefill", inCap[i]+1)
		for j := 0; j < k; j++ {
			m := newMsg((i+1)%n, i)
			ports[i].Deliver(m)
			preIn[i] = append(preIn[i], m)
		}
	}
	total := 0
	for i := 0; i < n; i++ {
		maxOut := 2
		if n == 3 && !verifrt.Thorough() && i > 0 {
			maxOut = 1 // quick tier, three ports: only the first port holds up to two messages (to arbitrary destinations)
		}
		k := verifrt.Choice("outgoing", maxOut+1)
		for j := 0; j < k; j++ {
			d := verifrt.Choice("dst", n-1)
			if d >= i {
				d++
			}
			m := newMsg(i, d)
			ports[i].Send(m)
			out[i] = append(out[i], m)
			total++
		}
	}
	(&conn.State).NextPortID = verifrt.Choice("cursor", n)

	progress := conn.mw().Tick()

	// what is left to forward: for every port the head's destination is full
	for i := 0; i < n; i++ {
		if h := ports[i].PeekOutgoing(); h != nil {
			d := h.(*c10Msg).dst
			verifrt.Assert(!ports[d].CanDeliver(), "tick-forwards-until-blocked")
			verifrt.Cover("blocked")
		}
	}
	// drain and compare
	moved := 0
	gotIn := make([][]*c10Msg, n)
	for i := 0; i < n; i++ {
		verifrt.Assert(ports[i].NumIncoming() <= inCap[i], "incoming-within-capacity")
		for ports[i].NumIncoming() > 0 {
			gotIn[i] = append(gotIn[i], ports[i].RetrieveIncoming().(*c10Msg))
		}
	}
	for i := 0; i < n; i++ {
		// previously delivered messages stay at the front, in order
		for j, m := range preIn[i] {
			verifrt.Assert(j < len(gotIn[i]) && gotIn[i][j] == m, "earlier-deliveries-untouched")
		}
		// newly delivered ones: addressed to this port, per source in sending order
		lastFrom := make([]int, n)
		for j := len(preIn[i]); j < len(gotIn[i]); j++ {
			m := gotIn[i][j]
			moved++
			verifrt.Assert(m.dst == i, "delivered-to-the-named-destination")
			verifrt.Assert(m.tag > lastFrom[m.src], "per-source-order-preserved")
			lastFrom[m.src] = m.tag
			verifrt.Assert(string(m.Meta().Dst) == c10Names[i] && string(m.Meta().Src) == c10Names[m.src], "meta-intact")
		}
	}
	remaining := 0
	for i := 0; i < n; i++ {
		// what remains in an outgoing buffer is a suffix of what was sent
		k := ports[i].NumOutgoing()
		remaining += k
		for j := 0; j < k; j++ {
			m := ports[i].RetrieveOutgoing().(*c10Msg)
			verifrt.Assert(m == out[i][len(out[i])-k+j], "unsent-messages-stay-in-order")
		}
	}
	verifrt.Assert(moved+remaining == total, "every-message-exactly-once")
	verifrt.Assert(progress == (moved > 0), "progress-iff-something-moved")
	if moved > 0 {
		verifrt.Cover("moved")
	}
	verifrt.Cover("end")
}
