package modeling

// C13 — event-driven components wake no later than requested.
// Scenario on the real SerialEngine with a real EventDrivenComponent (built by
// the real builder): wake requests and receive/port-free notifications arrive
// through stimulus events at symbolic times; the processor itself may request
// further wake-ups (symbolic offsets). Bit-vector encoding, all times symbolic.

import (
	"github.com/sarchlab/akita/v5/internal/verifrt"
	"github.com/sarchlab/akita/v5/timing"
)

type c13Spec struct{ N int }
type c13State struct{ Runs int }
type c13Res struct{}

type c13Comp = EventDrivenComponent[c13Spec, c13State, c13Res]

type c13Stim struct {
	t    timing.VTimeInPicoSec
	kind int
	at   timing.VTimeInPicoSec // requested wake time for kind 0
}

func (s c13Stim) Time() timing.VTimeInPicoSec { return s.t }
func (s c13Stim) HandlerID() string            { return "stim" }
func (s c13Stim) IsSecondary() bool            { return false }

type c13Need struct {
	from, by timing.VTimeInPicoSec // the processor must run at some time in [from, by]
}

type c13Run struct {
	e      *timing.SerialEngine
	c      *c13Comp
	runs   []timing.VTimeInPicoSec
	needs  []c13Need
	budget int
}

// Process implements EventProcessor.
func (r *c13Run) Process(c *c13Comp, now timing.VTimeInPicoSec) bool {
	verifrt.Assert(now == r.e.CurrentTime(), "processor-sees-current-time")
	r.runs = append(r.runs, now)
	if r.budget > 0 && verifrt.Bool("rearm") {
		r.budget--
		d := timing.VTimeInPicoSec(verifrt.Uint64Range("rearm-delay", 0, 1<<20))
		c.ScheduleWakeAt(now + d)
		r.needs = append(r.needs, c13Need{from: now, by: now + d})
		verifrt.Cover("rearmed")
	}
	return true
}

// Handle implements timing.Handler for the stimuli.
func (r *c13Run) Handle(e timing.Event) error {
	s := e.(c13Stim)
	switch s.kind {
	case 0:
		r.c.ScheduleWakeAt(s.at)
		r.needs = append(r.needs, c13Need{from: s.t, by: s.at})
		verifrt.Cover("wake-at")
	case 1:
		r.c.NotifyRecv(nil)
		r.needs = append(r.needs, c13Need{from: s.t, by: s.t})
		verifrt.Cover("notify-recv")
	case 2:
		r.c.NotifyPortFree(nil)
		r.needs = append(r.needs, c13Need{from: s.t, by: s.t})
		verifrt.Cover("notify-free")
	}
	return nil
}

func VerifC13_Scenario() {
	r := &c13Run{e: timing.NewSerialEngine(), budget: 1}
	r.c = NewEventDrivenBuilder[c13Spec, c13State, c13Res]().WithEngine(r.e).WithProcessor(r).Build("Comp")
	r.e.RegisterHandler("stim", r)
	k := 1 + verifrt.Choice("stimuli", verifrt.Bound("stimuli", 3, 4))
	for i := 0; i < k; i++ {
		t := timing.VTimeInPicoSec(verifrt.Uint64Range("t", 0, 1<<40))
		kind := verifrt.Choice("kind", 3)
		s := c13Stim{t: t, kind: kind}
		if kind == 0 {
			s.at = t + timing.VTimeInPicoSec(verifrt.Uint64Range("ahead", 0, 1<<30)) // not in the past
		}
		r.e.Schedule(s)
	}
	verifrt.Assert(r.e.Run() == nil, "run")
	// every request is honoured: the processor ran at some time in [request instant, requested time]
	for _, n := range r.needs {
		ok := false
		for _, t := range r.runs {
			ok = verifrt.Or(ok, verifrt.And(t >= n.from, t <= n.by))
		}
		verifrt.Assert(ok, "processor-ran-no-later-than-requested")
	}
	// and never in the past of the clock
	for i := 1; i < len(r.runs); i++ {
		verifrt.Assert(r.runs[i-1] <= r.runs[i], "runs-in-time-order")
	}
	verifrt.Assert(r.c.pendingWakeup == ^timing.VTimeInPicoSec(0), "no-wakeup-left-pending-after-run")
	verifrt.Observe("nruns", len(r.runs))
	verifrt.Cover("end")
}

// VerifC13_Step: one request from an arbitrary guard state. Invariant: a
// pending wake-up time p != Max means a timer event for time p is queued (ghost
// queue kept by a recording scheduler); after ScheduleWakeAt(t) some queued
// timer is at or before t.
type c13Sched struct {
	now    timing.VTimeInPicoSec
	queued []timing.VTimeInPicoSec
}

func (s *c13Sched) CurrentTime() timing.VTimeInPicoSec { return s.now }
func (s *c13Sched) Schedule(e timing.Event) {
	verifrt.Assert(e.Time() >= s.now, "timer-not-in-the-past")
	s.queued = append(s.queued, e.Time())
}

type c13Nop struct{}

func (c13Nop) Process(c *c13Comp, now timing.VTimeInPicoSec) bool { return false }

func VerifC13_Step() {
	sch := &c13Sched{now: timing.VTimeInPicoSec(verifrt.Uint64Range("now", 0, 1<<62))}
	c := NewEventDrivenBuilder[c13Spec, c13State, c13Res]().WithEngine(sch).WithProcessor(c13Nop{}).Build("Comp")
	if verifrt.Choice("armed", 2) == 1 {
		p := timing.VTimeInPicoSec(verifrt.Uint64Range("pending", 0, 1<<62))
		verifrt.Assume(p >= sch.now)
		c.pendingWakeup = p
		sch.queued = append(sch.queued, p)
		// other, later timers may still be queued from superseded requests
		if verifrt.Choice("stale", 2) == 1 {
			q := timing.VTimeInPicoSec(verifrt.Uint64Range("stale-t", 0, 1<<62))
			verifrt.Assume(q >= p)
			sch.queued = append(sch.queued, q)
		}
	}
	var t timing.VTimeInPicoSec
	switch verifrt.Choice("op", 3) {
	case 0:
		t = timing.VTimeInPicoSec(verifrt.Uint64Range("t", 0, 1<<62))
		verifrt.Assume(t >= sch.now)
		c.ScheduleWakeAt(t)
	case 1:
		t = sch.now
		c.NotifyRecv(nil)
	case 2:
		t = sch.now
		c.NotifyPortFree(nil)
	}
	ok := false
	for _, q := range sch.queued {
		ok = verifrt.Or(ok, q <= t)
	}
	verifrt.Assert(ok, "a-timer-at-or-before-the-requested-time-is-queued")
	// invariant re-established: the pending time is a queued timer
	inv := false
	for _, q := range sch.queued {
		inv = verifrt.Or(inv, q == c.pendingWakeup)
	}
	verifrt.Assert(inv, "pending-wakeup-is-a-queued-timer")
	verifrt.Assert(c.pendingWakeup <= t, "pending-wakeup-no-later-than-request")
	verifrt.Cover("end")
}
