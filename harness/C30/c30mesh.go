package mesh

// C30 (mesh part) — mesh routing reaches the destination tile in
// Manhattan-distance hops.

import (
	"github.com/sarchlab/akita/v5/hooking"
	"github.com/sarchlab/akita/v5/internal/verifrt"
	"github.com/sarchlab/akita/v5/messaging"
	"github.com/sarchlab/akita/v5/timing"
)

func c30abs(a int) int {
	if a < 0 {
		return -a
	}
	return a
}

// VerifC30_MeshStep: for ARBITRARY tile and destination coordinates, FindPort
// names the neighbour that is exactly one step closer (or the local port iff
// the tile is the destination). By induction the destination is reached in
// exactly the Manhattan distance.
func VerifC30_MeshStep() {
	coord := func(n string) int { return verifrt.IntRange(n, 0, 1<<20) }
	rt := &meshRoutingTable{x: coord("x"), y: coord("y"), z: coord("z"),
		top: "top", left: "left", bottom: "bottom", right: "right", front: "front", back: "back", local: "local"}
	dst := &tile{rt: &meshRoutingTable{x: coord("dx"), y: coord("dy"), z: coord("dz")}}
	rt.dstTable = map[messaging.RemotePort]*tile{"Dst.Port": dst}
	out := rt.FindPort("Dst.Port")
	nx, ny, nz := rt.x, rt.y, rt.z
	switch out {
	case "left":
		nx--
	case "right":
		nx++
	case "top":
		ny--
	case "bottom":
		ny++
	case "front":
		nz--
	case "back":
		nz++
	case "local":
	default:
		verifrt.Assert(false, "findport-returns-one-of-the-seven-ports")
	}
	before := c30abs(dst.rt.x-rt.x) + c30abs(dst.rt.y-rt.y) + c30abs(dst.rt.z-rt.z)
	after := c30abs(dst.rt.x-nx) + c30abs(dst.rt.y-ny) + c30abs(dst.rt.z-nz)
	if out == "local" {
		verifrt.Assert(before == 0, "local-only-at-the-destination")
		verifrt.Cover("local")
	} else {
		verifrt.Assert(after == before-1, "each-hop-is-one-step-closer")
		verifrt.Assert(nx >= 0 && ny >= 0 && nz >= 0, "never-routes-off-the-grid-origin")
		verifrt.Cover("hop")
	}
	verifrt.Cover("end")
}

type c30MDev struct {
	hooking.HookableBase
	name string
}

func (c *c30MDev) Name() string                                        { return c.name }
func (c *c30MDev) DeclarePort(name string, roles ...*messaging.Role) {}
func (c *c30MDev) AssignPort(name string, port messaging.Port)       {}
func (c *c30MDev) GetPortByName(name string) messaging.Port          { return nil }
func (c *c30MDev) Ports() []messaging.Port                           { return nil }
func (c *c30MDev) NotifyRecv(port messaging.Port)                    {}
func (c *c30MDev) NotifyPortFree(port messaging.Port)                {}

// VerifC30_MeshBuilt: on a mesh built by the real Connector every tile has a
// link port exactly towards its existing neighbours, and walking the real
// routing tables from any tile to any device takes exactly the Manhattan
// distance.
func VerifC30_MeshBuilt() {
	w := 1 + verifrt.Choice("w", verifrt.Bound("w", 2, 3))
	h := 1 + verifrt.Choice("h", 2)
	d := 1 + verifrt.Choice("d", 3) // depth 3 exceeds the initial grid capacity (8x8x2): the grid regrows while tiles are added
	c := NewConnector().WithEngine(timing.NewSerialEngine())
	c.CreateNetwork("Mesh")
	ports := map[[3]int]messaging.RemotePort{}
	for x := 0; x < w; x++ {
		for y := 0; y < h; y++ {
			for z := 0; z < d; z++ {
				dev := &c30MDev{name: "Dev"}
				name := "Dev" + string(rune('0'+x)) + string(rune('0'+y)) + string(rune('0'+z)) + ".Port"
				p := messaging.NewPort(dev, 1, 1, name)
				c.AddTile([3]int{x, y, z}, []messaging.Port{p})
				ports[[3]int{x, y, z}] = p.AsRemote()
			}
		}
	}
	c.EstablishNetwork()
	for x := 0; x < w; x++ {
		for y := 0; y < h; y++ {
			for z := 0; z < d; z++ {
				rt := c.grid[x][y][z].rt
				verifrt.Assert((rt.left != "") == (x > 0) && (rt.right != "") == (x < w-1), "x-links-exactly-to-existing-neighbours")
				verifrt.Assert((rt.top != "") == (y > 0) && (rt.bottom != "") == (y < h-1), "y-links-exactly-to-existing-neighbours")
				verifrt.Assert((rt.front != "") == (z > 0) && (rt.back != "") == (z < d-1), "z-links-exactly-to-existing-neighbours")
				verifrt.Assert(rt.local != "", "local-port-defined")
			}
		}
	}
	sx, sy, sz := verifrt.Choice("sx", w), verifrt.Choice("sy", h), verifrt.Choice("sz", d)
	tx, ty, tz := verifrt.Choice("tx", w), verifrt.Choice("ty", h), verifrt.Choice("tz", d)
	dist := c30abs(tx-sx) + c30abs(ty-sy) + c30abs(tz-sz)
	x, y, z := sx, sy, sz
	hops := 0
	for ; hops <= w+h+d+1; hops++ {
		rt := c.grid[x][y][z].rt
		out := rt.FindPort(ports[[3]int{tx, ty, tz}])
		if out == rt.local {
			break
		}
		switch out {
		case rt.left:
			x--
		case rt.right:
			x++
		case rt.top:
			y--
		case rt.bottom:
			y++
		case rt.front:
			z--
		case rt.back:
			z++
		default:
			verifrt.Assert(false, "route-uses-an-existing-link")
		}
	}
	verifrt.Assert(x == tx && y == ty && z == tz, "walk-ends-at-the-destination-tile")
	verifrt.Assert(hops == dist, "walk-takes-manhattan-distance-hops")
	verifrt.Cover("end")
}
