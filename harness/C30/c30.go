package networkconnector

// C30 — routing tables give loop-free shortest routes to every device.
// The real Connector builds real switches, endpoints and direct connections;
// the switch graph and the device placement are drawn by forking (every branch
// of Floyd–Warshall depends on the adjacency structure, so the exploration is
// exhaustive over the graphs within the bound; the solver only prunes).

import (
	"github.com/sarchlab/akita/v5/hooking"
	"github.com/sarchlab/akita/v5/internal/verifrt"
	"github.com/sarchlab/akita/v5/messaging"
	"github.com/sarchlab/akita/v5/timing"
)

type c30Dev struct {
	hooking.HookableBase
	name string
}

func (c *c30Dev) Name() string                                        { return c.name }
func (c *c30Dev) DeclarePort(name string, roles ...*messaging.Role) {}
func (c *c30Dev) AssignPort(name string, port messaging.Port)       {}
func (c *c30Dev) GetPortByName(name string) messaging.Port          { return nil }
func (c *c30Dev) Ports() []messaging.Port                           { return nil }
func (c *c30Dev) NotifyRecv(port messaging.Port)                    {}
func (c *c30Dev) NotifyPortFree(port messaging.Port)                {}

var c30SwParam = LinkEndSwitchParameter{IncomingBufSize: 1, OutgoingBufSize: 1, NumInputChannel: 1, NumOutputChannel: 1, Latency: 1}
var c30S2S = SwitchToSwitchLinkParameter{LeftEndParam: c30SwParam, RightEndParam: c30SwParam, LinkParam: LinkParameter{IsIdeal: true, Frequency: 1 * timing.GHz}}
var c30D2S = DeviceToSwitchLinkParameter{
	DeviceEndParam: LinkEndDeviceParameter{IncomingBufSize: 1, OutgoingBufSize: 1, NumInputChannel: 1, NumOutputChannel: 1},
	SwitchEndParam: c30SwParam, LinkParam: LinkParameter{IsIdeal: true, Frequency: 1 * timing.GHz}}

type c30Graph struct {
	s     int
	adj   [][]bool
	devAt []int
}

// c30Draw draws a connected switch graph with s switches and d devices.
func c30Draw(maxS, maxD int) c30Graph {
	g := c30Graph{s: 1 + verifrt.Choice("switches", maxS)}
	g.adj = make([][]bool, g.s)
	for i := range g.adj {
		g.adj[i] = make([]bool, g.s)
	}
	for i := 0; i < g.s; i++ {
		for j := i + 1; j < g.s; j++ {
			if verifrt.Choice("edge", 2) == 1 {
				g.adj[i][j], g.adj[j][i] = true, true
			}
		}
	}
	// connectedness (plain BFS on concrete bits)
	seen := make([]bool, g.s)
	seen[0] = true
	queue := []int{0}
	for len(queue) > 0 {
		u := queue[0]
		queue = queue[1:]
		for v := 0; v < g.s; v++ {
			if g.adj[u][v] && !seen[v] {
				seen[v] = true
				queue = append(queue, v)
			}
		}
	}
	for _, ok := range seen {
		verifrt.Assume(ok)
	}
	d := 1 + verifrt.Choice("devices", maxD)
	for i := 0; i < d; i++ {
		g.devAt = append(g.devAt, verifrt.Choice("device-at", g.s))
	}
	return g
}

// build constructs the network on connector c; returns the device ports.
func (g c30Graph) build(c *Connector, netName string, tag string) []messaging.Port {
	c.NewNetwork(netName)
	for i := 0; i < g.s; i++ {
		c.AddSwitch()
	}
	for i := 0; i < g.s; i++ {
		for j := i + 1; j < g.s; j++ {
			if g.adj[i][j] {
				c.ConnectSwitches(i, j, c30S2S)
			}
		}
	}
	var ports []messaging.Port
	for k, at := range g.devAt {
		dev := &c30Dev{name: tag + "Dev" + string(rune('A'+k))}
		p := messaging.NewPort(dev, 1, 1, dev.name+".Port")
		ports = append(ports, p)
		c.ConnectDevice(at, []messaging.Port{p}, c30D2S)
	}
	c.EstablishRoute()
	return ports
}

func (g c30Graph) dist(from, to int) int {
	d := make([]int, g.s)
	for i := range d {
		d[i] = -1
	}
	d[from] = 0
	queue := []int{from}
	for len(queue) > 0 {
		u := queue[0]
		queue = queue[1:]
		for v := 0; v < g.s; v++ {
			if g.adj[u][v] && d[v] < 0 {
				d[v] = d[u] + 1
				queue = append(queue, v)
			}
		}
	}
	return d[to]
}

// follow walks the routing tables from switch `from` towards device port dst;
// returns the number of hops until the device's endpoint is reached, -1 on a loop or dead end.
func c30Follow(c *Connector, from int, dst messaging.RemotePort, target *deviceNode) int {
	cur := c.switches[from]
	for hops := 1; hops <= 2*len(c.switches)+2; hops++ {
		out := cur.Table().FindPort(dst)
		var next Node
		for _, r := range cur.remotes {
			if r.LocalPort.AsRemote() == out {
				next = r.RemoteNode
			}
		}
		if next == nil {
			return -1
		}
		if dn, ok := next.(*deviceNode); ok {
			if dn == target {
				return hops
			}
			return -1
		}
		cur = next.(*switchNode)
	}
	return -1
}

// VerifC30_Routes: shortest, loop-free routes on every connected switch graph.
func VerifC30_Routes() {
	g := c30Draw(verifrt.Bound("switches", 3, 4), 2)
	conn := MakeConnector().WithEngine(timing.NewSerialEngine())
	c := &conn
	ports := g.build(c, "Net", "")
	for k, p := range ports {
		for from := 0; from < g.s; from++ {
			hops := c30Follow(c, from, p.AsRemote(), c.devices[k])
			verifrt.Assert(hops > 0, "route-reaches-the-device-without-looping")
			verifrt.Assert(hops == g.dist(from, g.devAt[k])+1, "route-is-a-shortest-path")
		}
	}
	if g.s >= 3 {
		verifrt.Cover("three-switches")
	}
	verifrt.Cover("end")
}

// VerifC30_Reuse: a connector reused for a second network produces the same
// routes as a fresh connector does for that network.
func VerifC30_Reuse() {
	first := c30Draw(2, 1)
	second := c30Draw(verifrt.Bound("switches", 2, 3), 2)
	reused := MakeConnector().WithEngine(timing.NewSerialEngine())
	first.build(&reused, "NetA", "A")
	var portsR []messaging.Port
	ok := !verifrt.ExpectPanic(func() { portsR = second.build(&reused, "NetB", "R") })
	verifrt.Assert(ok, "reused-connector-builds-the-second-network-without-panicking")
	if !ok {
		return
	}
	fresh := MakeConnector().WithEngine(timing.NewSerialEngine())
	portsF := second.build(&fresh, "NetB", "F")
	verifrt.Assert(len(reused.switches) == len(fresh.switches), "same-switch-count")
	verifrt.Assert(len(reused.devices) == len(fresh.devices), "reused-connector-lists-only-the-new-devices")
	nd := len(portsF)
	for k := 0; k < nd; k++ {
		for from := 0; from < second.s; from++ {
			dr := reused.devices[len(reused.devices)-nd+k]
			hr := c30Follow(&reused, from, portsR[k].AsRemote(), dr)
			hf := c30Follow(&fresh, from, portsF[k].AsRemote(), fresh.devices[k])
			verifrt.Assert(hr == hf && hf > 0, "reused-and-fresh-connector-route-alike")
		}
	}
	for i := range fresh.switches {
		if i < len(reused.switches) {
			verifrt.Assert(reused.switches[i].Name() == fresh.switches[i].Name(), "same-switch-names")
		}
	}
	for k := 0; k < nd && k < len(reused.devices); k++ {
		verifrt.Assert(reused.devices[len(reused.devices)-nd+k].Name() == fresh.devices[k].Name(), "same-endpoint-names")
	}
	verifrt.Cover("end")
}

// VerifC30_Rings: rings of 4..6 switches, optionally with one chord, with
// 1..2 devices on arbitrary switches (so some switches are pure transit
// switches): routes are shortest and loop-free. Complements VerifC30_Routes,
// which enumerates every graph on few switches.
func VerifC30_Rings() {
	n := 4 + verifrt.Choice("ring-size", 3)
	g := c30Graph{s: n}
	g.adj = make([][]bool, n)
	for i := range g.adj {
		g.adj[i] = make([]bool, n)
	}
	for i := 0; i < n; i++ {
		j := (i + 1) % n
		g.adj[i][j], g.adj[j][i] = true, true
	}
	if verifrt.Choice("chord", 2) == 1 {
		a := verifrt.Choice("chord-from", n)
		b := (a + 2 + verifrt.Choice("chord-span", n-3)) % n
		g.adj[a][b], g.adj[b][a] = true, true
	}
	d := 1 + verifrt.Choice("devices", 2)
	for i := 0; i < d; i++ {
		g.devAt = append(g.devAt, verifrt.Choice("device-at", n))
	}
	conn := MakeConnector().WithEngine(timing.NewSerialEngine())
	c := &conn
	ports := g.build(c, "Ring", "")
	for k, p := range ports {
		for from := 0; from < g.s; from++ {
			hops := c30Follow(c, from, p.AsRemote(), c.devices[k])
			verifrt.Assert(hops > 0, "ring-route-reaches-the-device-without-looping")
			verifrt.Assert(hops == g.dist(from, g.devAt[k])+1, "ring-route-is-a-shortest-path")
		}
	}
	verifrt.Cover("end")
}
