package vm

// C26 — page tables behave as a per-process map with deterministic lookups.

import (
	"io"

	"github.com/sarchlab/akita/v5/internal/verifrt"
)

var c26EOF = io.EOF

type c26Entry struct {
	pid  PID
	page Page
}

type c26Model struct {
	pt  *pageTableImpl
	pt2 *pageTableImpl // second instance: same history, independent map iteration order
	ref []c26Entry
}

func c26New() *c26Model {
	return &c26Model{
		pt:  NewPageTable(12).(*pageTableImpl),
		pt2: NewPageTable(12).(*pageTableImpl),
	}
}

func (m *c26Model) lookup(pid PID, vaddr uint64) int {
	for i, e := range m.ref {
		if e.pid == pid && e.page.VAddr == vaddr {
			return i
		}
	}
	return -1
}

func c26Page(pid PID) Page {
	v := verifrt.Uint64("vaddr")
	verifrt.Assume(v&0xfff == 0) // pages are inserted at page-aligned virtual addresses
	return Page{PID: pid, VAddr: v, PAddr: verifrt.Uint64("paddr"), PageSize: 4096, Valid: true, DeviceID: verifrt.Uint64("dev")}
}

func (m *c26Model) op() {
	pid := PID(1 + verifrt.Choice("pid", 2))
	switch verifrt.Choice("op", 5) {
	case 0: // insert
		pg := c26Page(pid)
		if m.lookup(pid, pg.VAddr) >= 0 {
			verifrt.Assert(verifrt.ExpectPanic(func() { m.pt.Insert(pg) }), "duplicate-insert-panics")
			verifrt.Cover("insert-duplicate")
		} else {
			m.pt.Insert(pg)
			m.pt2.Insert(pg)
			m.ref = append(m.ref, c26Entry{pid, pg})
			verifrt.Cover("inserted")
		}
	case 1: // update
		pg := c26Page(pid)
		if i := m.lookup(pid, pg.VAddr); i >= 0 {
			m.pt.Update(pg)
			m.pt2.Update(pg)
			m.ref[i].page = pg
			verifrt.Cover("updated")
		} else {
			verifrt.Assert(verifrt.ExpectPanic(func() { m.pt.Update(pg) }), "update-missing-panics")
		}
	case 2: // remove
		v := verifrt.Uint64("vaddr")
		if i := m.lookup(pid, v); i >= 0 {
			m.pt.Remove(pid, v)
			m.pt2.Remove(pid, v)
			m.ref = append(m.ref[:i:i], m.ref[i+1:]...)
			verifrt.Cover("removed")
		} else {
			verifrt.Assert(verifrt.ExpectPanic(func() { m.pt.Remove(pid, v) }), "remove-missing-panics")
		}
	case 3: // find (any address inside the page)
		a := verifrt.Uint64("addr")
		got, found := m.pt.Find(pid, a)
		i := m.lookup(pid, a&^uint64(0xfff))
		verifrt.Assert(found == (i >= 0), "find-hits-iff-mapped")
		if found && i >= 0 {
			verifrt.Assert(got == m.ref[i].page, "find-returns-the-mapped-page")
			verifrt.Cover("find-hit")
		}
		if !found {
			verifrt.Assert(got == Page{}, "find-miss-returns-zero-page")
		}
	case 4: // reverse lookup
		p := verifrt.Uint64("paddr-q")
		got, found := m.pt.ReverseLookup(p)
		exists := false
		for _, e := range m.ref {
			if e.page.PAddr == p {
				exists = true
			}
		}
		verifrt.Assert(found == exists, "reverse-lookup-finds-iff-some-page-has-that-address")
		if found {
			verifrt.Assert(got.PAddr == p, "reverse-lookup-returns-a-page-with-that-address")
			j := m.lookup(got.PID, got.VAddr)
			verifrt.Assert(j >= 0 && m.ref[j].page == got, "reverse-lookup-returns-a-mapped-page")
			// determinism: the same history on a second table (independent map order) gives the same answer
			got2, found2 := m.pt2.ReverseLookup(p)
			verifrt.Assert(found2 && got2 == got, "reverse-lookup-is-a-function-of-the-history")
			verifrt.Cover("reverse-hit")
		}
	}
}

// VerifC26_Hist: k arbitrary operations over two processes.
func VerifC26_Hist() {
	m := c26New()
	k := verifrt.Bound("ops", 3, 4)
	for i := 0; i < k; i++ {
		m.op()
	}
	verifrt.Cover("end")
}

// VerifC26_Shared: two processes map the same physical page; reverse lookup
// must not depend on map iteration order.
func VerifC26_Shared() {
	m := c26New()
	p := verifrt.Uint64("paddr")
	for pid := PID(1); pid <= 2; pid++ {
		v := verifrt.Uint64("vaddr")
		verifrt.Assume(v&0xfff == 0)
		pg := Page{PID: pid, VAddr: v, PAddr: p, PageSize: 4096, Valid: true}
		m.pt.Insert(pg)
		m.pt2.Insert(pg)
		m.ref = append(m.ref, c26Entry{pid, pg})
	}
	got, found := m.pt.ReverseLookup(p)
	got2, found2 := m.pt2.ReverseLookup(p)
	verifrt.Assert(found && found2, "shared-page-found")
	verifrt.Assert(got.PAddr == p && got2.PAddr == p, "shared-page-address")
	verifrt.Assert(got == got2, "reverse-lookup-of-a-shared-page-is-deterministic")
	verifrt.Cover("end")
}

type c26Buf struct {
	data []byte
	pos  int
}

func (b *c26Buf) Write(p []byte) (int, error) { b.data = append(b.data, p...); return len(p), nil }
func (b *c26Buf) Read(p []byte) (int, error) {
	if b.pos >= len(b.data) {
		return 0, c26EOF
	}
	n := copy(p, b.data[b.pos:])
	b.pos += n
	return n, nil
}

// VerifC26_Checkpoint: save -> load into a fresh table preserves every lookup
// result, including reverse lookups of shared physical pages, whatever order
// the processes were first touched in; a different page size is refused.
func VerifC26_Checkpoint() {
	m := c26New()
	k := verifrt.Bound("inserts", 3, 4)
	shared := verifrt.Uint64("shared-paddr")
	for i := 0; i < k; i++ {
		pid := PID(1 + verifrt.Choice("pid", 3))
		pg := c26Page(pid)
		if verifrt.Choice("share", 2) == 1 {
			pg.PAddr = shared
		}
		if m.lookup(pid, pg.VAddr) >= 0 {
			continue
		}
		m.pt.Insert(pg)
		m.ref = append(m.ref, c26Entry{pid, pg})
	}
	var w c26Buf
	verifrt.Assert(m.pt.SaveCheckpoint(&w) == nil, "save-succeeds")
	fresh := NewPageTable(12).(*pageTableImpl)
	verifrt.Assert(fresh.LoadCheckpoint(&c26Buf{data: w.data}) == nil, "load-succeeds")
	for _, e := range m.ref {
		a, fa := m.pt.Find(e.pid, e.page.VAddr)
		b, fb := fresh.Find(e.pid, e.page.VAddr)
		verifrt.Assert(fa && fb && a == b, "find-survives-checkpoint")
		ra, oka := m.pt.ReverseLookup(e.page.PAddr)
		rb, okb := fresh.ReverseLookup(e.page.PAddr)
		verifrt.Assert(oka && okb && ra == rb, "reverse-lookup-survives-checkpoint")
	}
	// per-process insertion order survives: removing and reverse-looking-up again agrees
	if len(m.ref) > 0 {
		e := m.ref[0]
		m.pt.Remove(e.pid, e.page.VAddr)
		fresh.Remove(e.pid, e.page.VAddr)
		ra, oka := m.pt.ReverseLookup(e.page.PAddr)
		rb, okb := fresh.ReverseLookup(e.page.PAddr)
		verifrt.Assert(oka == okb && ra == rb, "reverse-lookup-agrees-after-a-removal")
	}
	other := NewPageTable(16).(*pageTableImpl)
	verifrt.Assert(other.LoadCheckpoint(&c26Buf{data: w.data}) != nil, "page-size-mismatch-refused")
	verifrt.Cover("end")
}
