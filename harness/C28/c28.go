package lruset

// C28 — LRU sets behave as a recency-ordered key map.

import "github.com/sarchlab/akita/v5/internal/verifrt"

// c28State draws an arbitrary set satisfying the representation invariant:
// visitList is a duplicate-free list of ways sorted by strictly increasing
// lastVisits, every lastVisits[w] <= visitCount.
func c28State(maxWays int) (*Set, []int) {
	ways := 1 + verifrt.Choice("ways", maxWays)
	s := &Set{wayCount: ways, lastVisits: make([]uint64, ways), keyMap: map[string]int{}}
	s.visitCount = verifrt.Uint64Range("visitCount", 0, 1<<62)
	for w := 0; w < ways; w++ {
		s.lastVisits[w] = verifrt.Uint64("lastVisit")
		verifrt.Assume(s.lastVisits[w] <= s.visitCount)
	}
	// an arbitrary duplicate-free list of ways …
	n := verifrt.Choice("listed", ways+1)
	used := make([]bool, ways)
	for i := 0; i < n; i++ {
		w := verifrt.Choice("way", ways)
		verifrt.Assume(!used[w])
		used[w] = true
		// … in strictly increasing last-visit order
		if i > 0 {
			verifrt.Assume(s.lastVisits[s.visitList[i-1]] < s.lastVisits[w])
		}
		s.visitList = append(s.visitList, w)
	}
	return s, append([]int(nil), s.visitList...)
}

func c28Inv(s *Set, tag string) {
	seen := make([]bool, s.wayCount)
	for i, w := range s.visitList {
		verifrt.Assert(w >= 0 && w < s.wayCount, tag+"-way-in-range")
		if w >= 0 && w < s.wayCount {
			verifrt.Assert(!seen[w], tag+"-no-duplicate-way")
			seen[w] = true
		}
		if i > 0 {
			verifrt.Assert(s.lastVisits[s.visitList[i-1]] < s.lastVisits[w], tag+"-sorted-by-last-visit")
		}
		verifrt.Assert(s.lastVisits[w] <= s.visitCount, tag+"-last-visit-not-in-future")
	}
}

// VerifC28_Step: one Visit or Evict from an arbitrary valid state.
func VerifC28_Step() {
	s, before := c28State(verifrt.Bound("ways", 4, 5))
	if verifrt.Choice("op", 2) == 0 {
		w := verifrt.Choice("visit", s.wayCount)
		s.Visit(w)
		c28Inv(s, "visit")
		verifrt.Assert(len(s.visitList) > 0 && s.visitList[len(s.visitList)-1] == w, "visit-makes-way-most-recent")
		// everything else keeps its relative order, nothing else appears or disappears
		rest := []int{}
		for _, x := range before {
			if x != w {
				rest = append(rest, x)
			}
		}
		verifrt.Assert(len(s.visitList) == len(rest)+1, "visit-length")
		for i := range rest {
			if i < len(s.visitList) {
				verifrt.Assert(s.visitList[i] == rest[i], "visit-keeps-other-ways-in-order")
			}
		}
		verifrt.Cover("visited")
	} else {
		w, ok := s.Evict()
		if len(before) == 0 {
			verifrt.Assert(!ok, "evict-empty-reports-false")
			verifrt.Cover("evict-empty")
		} else {
			verifrt.Assert(ok && w == before[0], "evict-returns-least-recent")
			for _, x := range before[1:] {
				verifrt.Assert(s.lastVisits[w] < s.lastVisits[x], "evicted-way-is-older-than-all-others")
			}
			verifrt.Assert(len(s.visitList) == len(before)-1, "evict-removes-one")
			for i := range s.visitList {
				verifrt.Assert(s.visitList[i] == before[i+1], "evict-keeps-the-rest")
			}
			c28Inv(s, "evict")
			verifrt.Cover("evicted")
		}
	}
	verifrt.Cover("end")
}

var c28Keys = []string{KeyString(1, 0x1000), KeyString(2, 0x1000)}

// VerifC28_Hist: k arbitrary operations from NewSet against a reference model
// (recency list + key map).
func VerifC28_Hist() {
	ways := 1 + verifrt.Choice("ways", 3)
	s := NewSet(ways)
	refList := []int{}
	for w := 0; w < ways; w++ {
		refList = append(refList, w)
	}
	refMap := map[string]int{}
	k := verifrt.Bound("ops", 3, 4)
	for i := 0; i < k; i++ {
		switch verifrt.Choice("op", 5) {
		case 0:
			key := c28Keys[verifrt.Choice("key", len(c28Keys))]
			w, ok := s.Lookup(key)
			rw, rok := refMap[key]
			verifrt.Assert(ok == rok, "lookup-found-iff-bound")
			if ok && rok {
				verifrt.Assert(w == rw, "lookup-returns-last-bound-way")
				verifrt.Cover("lookup-hit")
			}
		case 1:
			w := verifrt.Choice("way", ways)
			oldK := c28Keys[verifrt.Choice("old", len(c28Keys))]
			newK := c28Keys[verifrt.Choice("new", len(c28Keys))]
			s.UpdateKey(w, oldK, newK)
			delete(refMap, oldK)
			refMap[newK] = w
		case 2:
			key := c28Keys[verifrt.Choice("key", len(c28Keys))]
			s.Remove(key)
			delete(refMap, key)
		case 3:
			w, ok := s.Evict()
			if len(refList) == 0 {
				verifrt.Assert(!ok, "hist-evict-empty")
			} else {
				verifrt.Assert(ok && w == refList[0], "hist-evict-least-recent")
				refList = refList[1:]
				verifrt.Cover("hist-evicted")
			}
		case 4:
			w := verifrt.Choice("way", ways)
			s.Visit(w)
			nl := []int{}
			for _, x := range refList {
				if x != w {
					nl = append(nl, x)
				}
			}
			refList = append(nl, w)
		}
		verifrt.Assert(len(s.visitList) == len(refList), "hist-list-length")
		for j := range refList {
			if j < len(s.visitList) {
				verifrt.Assert(s.visitList[j] == refList[j], "hist-recency-order")
			}
		}
	}
	verifrt.Cover("end")
}

// VerifC28_KeyString: distinct (pid, addr) pairs give distinct keys for the
// widths the code formats (decimal pid, 16-digit hex address): checked on the
// boundary cases where digits could run together.
func VerifC28_KeyString() {
	cases := [][2]uint64{{1, 0x11}, {11, 0x1}, {1, 0x1000000000000000}, {10, 0}, {1, 0}, {0, 1}, {0, 0x10}}
	for i := range cases {
		for j := range cases {
			if i != j {
				verifrt.Assert(KeyString(cases[i][0], cases[i][1]) != KeyString(cases[j][0], cases[j][1]), "keystring-injective-on-boundary-cases")
			}
		}
	}
	verifrt.Cover("end")
}
