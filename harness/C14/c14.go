package queueing

// C14 — buffers behave as bounded FIFO queues.
//
// Step harness: an arbitrary valid buffer (capacity, fill level and contents
// symbolic) takes one arbitrary operation and is compared with a Go-slice
// reference model. History harness: k arbitrary operations from NewBuffer.

import (
	"github.com/sarchlab/akita/v5/hooking"
	"github.com/sarchlab/akita/v5/internal/verifrt"
)

type c14Item struct {
	A uint64
	B uint32
}

type c14Hook struct {
	pushes, pops int
	lastItem     c14Item
	lastPos      *hooking.HookPos
	domainOK     bool
	want         hooking.Hookable
}

func (h *c14Hook) Func(ctx hooking.HookCtx) {
	if ctx.Pos == HookPosBufPush {
		h.pushes++
	}
	if ctx.Pos == HookPosBufPop {
		h.pops++
	}
	h.lastPos = ctx.Pos
	h.lastItem, _ = ctx.Item.(c14Item)
	h.domainOK = ctx.Domain == h.want
}

func c14NewItem() c14Item {
	return c14Item{A: verifrt.Uint64("a"), B: verifrt.Uint32("b")}
}

// c14Same asserts that buffer b holds exactly ref (front to back) under capacity capN.
func c14Same(b *Buffer[c14Item], ref []c14Item, capN int, tag string) {
	verifrt.Assert(b.Size() == len(ref), tag+"-size")
	verifrt.Assert(b.Capacity() == capN, tag+"-capacity")
	verifrt.Assert(b.Size() <= capN || capN < 0, tag+"-bounded")
	verifrt.Assert(b.CanPush() == (len(ref) < capN), tag+"-canpush")
	els := b.Elements()
	verifrt.Assert(len(els) == len(ref), tag+"-elements-len")
	for i := range ref {
		if i < len(els) {
			verifrt.Assert(els[i] == ref[i], tag+"-elements-content")
		}
	}
	if len(ref) > 0 {
		verifrt.Assert(b.Peek() == ref[0], tag+"-peek")
	} else {
		verifrt.Assert(b.Peek() == c14Item{}, tag+"-peek-empty-zero")
	}
}

// c14Op applies one arbitrary operation to both the buffer and the reference.
func c14Op(b *Buffer[c14Item], ref []c14Item, capN int, hook *c14Hook, tag string) []c14Item {
	switch verifrt.Choice("op", 7) {
	case 0: // push
		it := c14NewItem()
		if len(ref) < capN {
			verifrt.Assert(b.CanPush(), tag+"-canpush-true")
			p0 := 0
			if hook != nil {
				p0 = hook.pushes
			}
			b.PushTyped(it)
			ref = append(ref, it)
			if hook != nil {
				verifrt.Assert(hook.pushes == p0+1, tag+"-push-hook-once")
				verifrt.Assert(hook.lastItem == it, tag+"-push-hook-item")
				verifrt.Assert(hook.lastPos == HookPosBufPush, tag+"-push-hook-pos")
				verifrt.Assert(hook.domainOK, tag+"-push-hook-domain")
			}
			verifrt.Cover("pushed")
		} else {
			verifrt.Assert(!b.CanPush(), tag+"-canpush-false")
			verifrt.Assert(verifrt.ExpectPanic(func() { b.PushTyped(it) }), tag+"-overflow-refused")
			verifrt.Cover("push-refused")
		}
	case 1: // pop
		p0 := 0
		if hook != nil {
			p0 = hook.pops
		}
		got := b.Pop()
		if len(ref) > 0 {
			verifrt.Assert(got == ref[0], tag+"-pop-front")
			if hook != nil {
				verifrt.Assert(hook.pops == p0+1, tag+"-pop-hook-once")
				verifrt.Assert(hook.lastItem == ref[0], tag+"-pop-hook-item")
			}
			ref = ref[1:]
			verifrt.Cover("popped")
		} else {
			verifrt.Assert(got == c14Item{}, tag+"-pop-empty-zero")
			if hook != nil {
				verifrt.Assert(hook.pops == p0, tag+"-pop-empty-no-hook")
			}
			verifrt.Cover("pop-empty")
		}
	case 2: // update front
		it := c14NewItem()
		b.UpdateFront(it)
		if len(ref) > 0 {
			nr := append([]c14Item{it}, ref[1:]...)
			ref = nr
			verifrt.Cover("updated-front")
		}
	case 3: // clear
		b.Clear()
		ref = nil
	case 4: // Elements() returns a copy: mutating it must not change the buffer
		els := b.Elements()
		for i := range els {
			els[i] = c14Item{A: ^els[i].A, B: els[i].B + 1}
		}
		if len(els) > 0 {
			verifrt.Cover("elements-mutated")
		}
	case 5: // restore
		n := verifrt.IntRange("restore-n", 0, 3)
		src := make([]c14Item, 0, 3)
		for i := 0; i < n; i++ {
			src = append(src, c14NewItem())
		}
		if n <= capN {
			b.Restore(src)
			ref = append([]c14Item(nil), src...)
			// the buffer must not alias the caller's slice
			for i := range src {
				src[i] = c14Item{A: ^src[i].A}
			}
			verifrt.Cover("restored")
		} else {
			verifrt.Assert(verifrt.ExpectPanic(func() { b.Restore(src) }), tag+"-restore-overflow-refused")
			verifrt.Cover("restore-refused")
		}
	case 6: // name / size observers are pure
		verifrt.Assert(b.Name() == "buf", tag+"-name")
	}
	return ref
}

// VerifC14_Step: one arbitrary operation from an arbitrary valid state.
func VerifC14_Step() {
	capN := verifrt.IntRange("cap", 0, 3)
	n := verifrt.IntRange("n", 0, 3)
	verifrt.Assume(n <= capN)
	b := NewBuffer[c14Item]("buf", capN)
	var ref []c14Item
	for i := 0; i < n; i++ {
		it := c14NewItem()
		b.elements = append(b.elements, it)
		ref = append(ref, it)
	}
	var hook *c14Hook
	if verifrt.Choice("hooked", 2) == 1 {
		hook = &c14Hook{want: &b}
		b.AcceptHook(hook)
	}
	c14Same(&b, ref, capN, "pre")
	ref = c14Op(&b, ref, capN, hook, "op")
	c14Same(&b, ref, capN, "post")
	verifrt.Cover("end")
}

// VerifC14_Hist: k arbitrary operations from the constructor state.
func VerifC14_Hist() {
	capN := verifrt.IntRange("cap", 0, 2)
	b := NewBuffer[c14Item]("buf", capN)
	var ref []c14Item
	k := verifrt.Bound("k", 3, 4)
	for i := 0; i < k; i++ {
		ref = c14Op(&b, ref, capN, nil, "hist")
		verifrt.Assert(b.Size() == len(ref), "hist-size")
		verifrt.Assert(b.Size() <= capN, "hist-bounded")
	}
	c14Same(&b, ref, capN, "hist-final")
	verifrt.Cover("end")
}

// VerifC14_U64: the uint64 instantiation, FIFO order of k pushes then pops.
func VerifC14_U64() {
	capN := verifrt.IntRange("cap", 1, 4)
	b := NewBuffer[uint64]("buf", capN)
	var ref []uint64
	for i := 0; i < 6; i++ {
		if verifrt.Bool("push") {
			v := verifrt.Uint64("v")
			if b.CanPush() {
				b.PushTyped(v)
				ref = append(ref, v)
			}
		} else {
			got := b.Pop()
			if len(ref) > 0 {
				verifrt.Assert(got == ref[0], "u64-fifo")
				ref = ref[1:]
			} else {
				verifrt.Assert(got == 0, "u64-empty-zero")
			}
		}
		verifrt.Assert(b.Size() == len(ref), "u64-size")
		verifrt.Assert(b.Size() <= capN, "u64-bounded")
	}
	verifrt.Cover("end")
}
