package mem

// C24 — interleaved address conversion is consistent and order-preserving.
//
// Integer encoding; addresses, offsets and indices are 64-bit and symbolic,
// interleaving size and element count range over stated concrete sets. Instead of
// computing a second division in the oracle, every external address is
// decomposed with solver-chosen witnesses
//     ext - off = q*(S*n) + k*S + r,   0 <= r < S, 0 <= k < n
// (unique by Euclid), so "the element that owns ext" is k and the in-order
// internal address is q*S + r.

import (
	"github.com/sarchlab/akita/v5/internal/verifrt"
	"github.com/sarchlab/akita/v5/messaging"
)

var c24Sizes = []uint64{1, 2, 3, 64, 100, 4096, 1 << 20}
var c24Counts = []int{1, 2, 3, 4, 5, 8, 16, 1024}

type c24Cfg struct {
	S, off uint64
	n, idx int
}

func c24Config() c24Cfg {
	// S and n are drawn from concrete sets (the executor forks over them): with
	// both symbolic every obligation is a non-linear div/mod problem that z3,
	// z3-new and cvc5 all answer "unknown" to at 60 s (probed); with S and n
	// concrete the arithmetic is linear and complete. Offset, address, round,
	// stripe position and element index stay symbolic over 64 bits.
	S := c24Sizes[verifrt.Choice("S", len(c24Sizes))]
	n := c24Counts[verifrt.Choice("n", len(c24Counts))]
	idx := verifrt.IntRange("idx", 0, 1023)
	verifrt.Assume(idx < n)
	off := verifrt.Uint64("off")
	return c24Cfg{S: S, off: off, n: n, idx: idx}
}

// c24Addr draws an external address >= off together with its decomposition.
func c24Addr(c c24Cfg, tag string) (ext, q uint64, k int, r uint64) {
	q = verifrt.Uint64Range(tag+"q", 0, 1<<12)
	k = verifrt.IntRange(tag+"k", 0, 1023)
	verifrt.Assume(k < c.n)
	r = verifrt.Uint64(tag + "r")
	verifrt.Assume(r < c.S)
	a := q*(c.S*uint64(c.n)) + uint64(k)*c.S + r // < 2^12*2^50+2^50+2^40 < 2^63: no wrap
	verifrt.Assume(a <= ^uint64(0)-c.off)
	ext = a + c.off
	return
}

func c24Conv(c c24Cfg) InterleavingConverter {
	return InterleavingConverter{InterleavingSize: c.S, TotalNumOfElements: c.n, CurrentElementIndex: c.idx, Offset: c.off}
}

// VerifC24_Own: the converter accepts an address iff its element owns it, and
// maps an owned address to the in-order internal address q*S+r.
func VerifC24_Own() {
	c := c24Config()
	ext, q, k, r := c24Addr(c, "")
	conv := c24Conv(c)
	var got uint64
	panicked := verifrt.ExpectPanic(func() { got = conv.ConvertExternalToInternal(ext) })
	verifrt.Observe("panicked", panicked)
	if k == c.idx {
		verifrt.Assert(!panicked, "own-accepted")
		verifrt.Observe("got", got)
		verifrt.Assert(got == q*c.S+r, "own-closed-form")
		verifrt.Cover("owned")
	} else {
		verifrt.Assert(panicked, "foreign-rejected")
		verifrt.Cover("foreign")
	}
	verifrt.Cover("end")
}

// VerifC24_BelowOffset: addresses below the offset are rejected.
func VerifC24_BelowOffset() {
	c := c24Config()
	ext := verifrt.Uint64("ext")
	verifrt.Assume(ext < c.off)
	conv := c24Conv(c)
	verifrt.Assert(verifrt.ExpectPanic(func() { conv.ConvertExternalToInternal(ext) }), "below-offset-rejected")
	verifrt.Cover("end")
}

// VerifC24_Mono: owned addresses map in order and one-to-one.
func VerifC24_Mono() {
	c := c24Config()
	e1, _, k1, _ := c24Addr(c, "a")
	e2, _, k2, _ := c24Addr(c, "b")
	verifrt.Assume(k1 == c.idx)
	verifrt.Assume(k2 == c.idx)
	verifrt.Assume(e1 < e2)
	conv := c24Conv(c)
	i1 := conv.ConvertExternalToInternal(e1)
	i2 := conv.ConvertExternalToInternal(e2)
	verifrt.Observe("i1", i1)
	verifrt.Observe("i2", i2)
	verifrt.Assert(i1 < i2, "monotone-injective")
	verifrt.Cover("end")
}

// VerifC24_Contig: inside one stripe, consecutive external addresses map to
// consecutive internal addresses.
func VerifC24_Contig() {
	c := c24Config()
	e1, _, k1, r1 := c24Addr(c, "a")
	verifrt.Assume(k1 == c.idx)
	verifrt.Assume(r1+1 < c.S) // e1+1 is in the same stripe
	verifrt.Assume(e1 < ^uint64(0))
	conv := c24Conv(c)
	i1 := conv.ConvertExternalToInternal(e1)
	i2 := conv.ConvertExternalToInternal(e1 + 1)
	verifrt.Observe("i1", i1)
	verifrt.Observe("i2", i2)
	verifrt.Assert(i2 == i1+1, "contiguous-in-stripe")
	verifrt.Cover("end")
}

// VerifC24_ConvertAddress: the free function agrees with the converter, and is
// the identity for an empty kind.
func VerifC24_ConvertAddress() {
	c := c24Config()
	ext, q, k, r := c24Addr(c, "")
	if verifrt.Choice("kind", 2) == 0 {
		verifrt.Assert(ConvertAddress("", c.off, c.S, c.n, c.idx, ext) == ext, "empty-kind-identity")
		verifrt.Cover("identity")
		verifrt.Cover("end")
		return
	}
	var got uint64
	panicked := verifrt.ExpectPanic(func() { got = ConvertAddress("interleaving", c.off, c.S, c.n, c.idx, ext) })
	if k == c.idx {
		verifrt.Assert(!panicked, "convaddr-accepted")
		verifrt.Assert(got == q*c.S+r, "convaddr-closed-form")
		verifrt.Cover("owned")
	} else {
		verifrt.Assert(panicked, "convaddr-foreign-rejected")
	}
	verifrt.Cover("end")
}

// VerifC24_Mapper: the interleaved port mapper sends an address to the element
// the converter assigns it to. The mapper has no offset parameter, so the two
// are comparable when the offset is a whole number of rounds (stated).
func VerifC24_Mapper() {
	S := []uint64{1, 3, 64, 4096, 1 << 20}[verifrt.Choice("S", 5)]
	n := 1 + verifrt.Choice("n", 4)
	rounds := verifrt.Uint64Range("rounds", 0, 1<<10)
	off := rounds * (S * uint64(n))
	c := c24Cfg{S: S, off: off, n: n, idx: 0}
	ext, _, k, _ := c24Addr(c, "")
	mp := NewInterleavedAddressPortMapper(S)
	names := []messaging.RemotePort{"m0", "m1", "m2", "m3"}
	for i := 0; i < n; i++ {
		mp.LowModules = append(mp.LowModules, names[i])
	}
	port := mp.Find(ext)
	kk := verifrt.Concretize(k, 0, 3)
	verifrt.Assert(port == names[kk], "mapper-agrees-with-owner")
	// and the converter of that element accepts it while any other rejects it
	for i := 0; i < n; i++ {
		conv := InterleavingConverter{InterleavingSize: S, TotalNumOfElements: n, CurrentElementIndex: i, Offset: off}
		rejected := verifrt.ExpectPanic(func() { conv.ConvertExternalToInternal(ext) })
		verifrt.Assert(rejected == (names[i] != port), "mapper-converter-consistent")
	}
	verifrt.Cover("end")
}
