package messaging

// C11 — ports are bounded FIFO channels with accurate capacity and notifications.

import "github.com/sarchlab/akita/v5/internal/verifrt"

// VerifC11_Step: one arbitrary operation from an arbitrary valid port state.
func VerifC11_Step() {
	inCap := 1 + verifrt.Choice("incap", 3)
	outCap := 1 + verifrt.Choice("outcap", 3)
	m := vpNewPortModel(inCap, outCap)
	m.fill(verifrt.Choice("nin", inCap+1), verifrt.Choice("nout", outCap+1))
	m.check("pre")
	m.op("step")
	m.check("post")
	// the port lock is never left held (a held lock would deadlock here)
	if !m.poisoned {
		m.p.NumIncoming()
	}
	verifrt.Cover("end")
}

// VerifC11_Hist: k arbitrary operations from NewPort.
func VerifC11_Hist() {
	inCap := 1 + verifrt.Choice("incap", 2)
	outCap := 1 + verifrt.Choice("outcap", 2)
	m := vpNewPortModel(inCap, outCap)
	k := verifrt.Bound("k", 4, 5)
	for i := 0; i < k; i++ {
		m.op("hist")
		m.check("hist")
	}
	verifrt.Cover("end")
}
