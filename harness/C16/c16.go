package idealmemcontroller

// C16 (fragment: the hierarchy leaf) — the ideal memory controller is
// transparent to requesters: reads return what a flat memory would hold after
// the acknowledged writes (honouring dirty masks), never-written bytes read
// zero, every request gets exactly one response of the matching kind addressed
// to its sender with its id, none is left unanswered.

import (
	"github.com/sarchlab/akita/v5/internal/verifrt"
	"github.com/sarchlab/akita/v5/mem"
	"github.com/sarchlab/akita/v5/mem/memprotocol"
	"github.com/sarchlab/akita/v5/messaging"
	"github.com/sarchlab/akita/v5/modeling"
	"github.com/sarchlab/akita/v5/timing"
)

type c16Req struct {
	id     uint64
	src    messaging.RemotePort
	isRead bool
	addr   int
	n      int
	data   []byte
	mask   []bool
	sent   bool
	done   bool
}

func (r *c16Req) overlaps(o *c16Req) bool {
	return r.addr < o.addr+o.n && o.addr < r.addr+r.n
}

func VerifC16_IdealMem() {
	engine := timing.NewSerialEngine()
	spec := DefaultSpec()
	spec.Latency = verifrt.Choice("latency", 3)
	spec.Width = 1 + verifrt.Choice("width", 2)
	spec.Capacity = 16
	comp := MakeBuilder().WithRegistrar(modeling.NewStandaloneRegistrar(engine)).WithSpec(spec).
		WithResources(Resources{Storage: mem.NewStorage(16)}).Build("Mem")
	wire := &vpWire{}
	mk := func(name string, capN int) messaging.Port {
		p := messaging.NewPort(comp, capN, capN, "Mem."+name)
		p.SetConnection(wire)
		comp.AssignPort(name, p)
		return p
	}
	top := mk("Top", 2)
	mk("Control", 1)

	nReq := verifrt.Bound("requests", 2, 3)
	reqs := make([]*c16Req, nReq)
	for i := range reqs {
		kind := verifrt.Choice("kind", 3) // read, write, masked write
		r := &c16Req{id: verifrt.Uint64("req-id"), isRead: kind == 0}
		r.src = []messaging.RemotePort{"CoreA.Port", "CoreB.Port"}[i%2]
		r.addr = []int{0, 1, 4}[verifrt.Choice("addr", 3)] // overlapping, adjacent and distant accesses
		r.n = 1 + verifrt.Choice("len", 2)
		for j := 0; j < i; j++ {
			verifrt.Assume(reqs[j].id != r.id)
		}
		if !r.isRead {
			for k := 0; k < r.n; k++ {
				r.data = append(r.data, verifrt.Byte("wdata"))
			}
			if kind == 2 {
				for k := 0; k < r.n; k++ {
					r.mask = append(r.mask, verifrt.Choice("maskbit", 2) == 1)
				}
			}
		}
		reqs[i] = r
	}
	var flat [16]byte // the reference flat memory (zero-initialised)
	next, answered := 0, 0
	stalls := 2
	for tick := 0; tick < 40; tick++ {
		// issue the next request unless it would overlap a request in flight
		if next < nReq && top.CanDeliver() {
			r := reqs[next]
			clash := false
			for _, o := range reqs[:next] {
				if o.sent && !o.done && r.overlaps(o) {
					clash = true
				}
			}
			if !clash && (stalls == 0 || verifrt.Choice("issue", 2) == 1) {
				if r.isRead {
					m := memprotocol.ReadReq{Address: uint64(r.addr), AccessByteSize: uint64(r.n)}
					m.ID, m.Src, m.Dst = r.id, r.src, top.AsRemote()
					top.Deliver(m)
				} else {
					m := memprotocol.WriteReq{Address: uint64(r.addr), Data: r.data, DirtyMask: r.mask}
					m.ID, m.Src, m.Dst = r.id, r.src, top.AsRemote()
					top.Deliver(m)
				}
				r.sent = true
				next++
			} else if !clash {
				stalls--
			}
		}
		progress := comp.Tick()
		for top.PeekOutgoing() != nil {
			rsp := top.RetrieveOutgoing()
			answered++
			var r *c16Req
			for _, o := range reqs {
				if o.sent && !o.done && rsp.Meta().RspTo == o.id {
					r = o
				}
			}
			verifrt.Assert(r != nil, "response-references-an-outstanding-request")
			if r == nil {
				continue
			}
			r.done = true
			verifrt.Assert(rsp.Meta().Dst == r.src && rsp.Meta().Src == top.AsRemote(), "response-addressed-to-the-sender")
			if r.isRead {
				d, ok := rsp.(memprotocol.DataReadyRsp)
				verifrt.Assert(ok && len(d.Data) == r.n, "read-answered-with-data-of-the-requested-length")
				if ok && len(d.Data) == r.n {
					for k := 0; k < r.n; k++ {
						verifrt.Assert(d.Data[k] == flat[r.addr+k], "read-returns-the-flat-memory-bytes")
					}
				}
				verifrt.Cover("read-answered")
			} else {
				_, ok := rsp.(memprotocol.WriteDoneRsp)
				verifrt.Assert(ok, "write-answered-with-write-done")
				for k := 0; k < r.n; k++ {
					if r.mask == nil || r.mask[k] {
						flat[r.addr+k] = r.data[k]
					}
				}
				verifrt.Cover("write-acknowledged")
			}
		}
		if !progress && next == nReq {
			break
		}
	}
	verifrt.Assert(next == nReq && answered == nReq, "every-request-answered-exactly-once")
	for _, r := range reqs {
		verifrt.Assert(r.done, "no-request-left-unanswered")
	}
	// the storage agrees with the flat memory at the end
	got, err := comp.Resources().Storage.Read(0, 8)
	verifrt.Assert(err == nil, "final-read")
	for k := 0; k < 8 && k < len(got); k++ {
		verifrt.Assert(got[k] == flat[k], "storage-equals-flat-memory-at-the-end")
	}
	verifrt.Cover("end")
}
