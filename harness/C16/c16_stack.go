package writeback

// C16 (fragment: an assembled two/three-level stack on the real engine) — an
// agent, optionally a write-through cache, a write-back cache and an ideal
// memory controller, wired by real direct connections and run by the real
// serial engine. Three requests (read / partial write / full-line write with
// symbolic data) to three lines competing for one set, concurrent as far as the
// property allows, then every written range is read back: every read returns
// the flat-memory bytes, every request gets exactly one response of its kind.

import (
	"github.com/sarchlab/akita/v5/internal/verifrt"
	"github.com/sarchlab/akita/v5/mem"
	"github.com/sarchlab/akita/v5/mem/cache/writethroughcache"
	"github.com/sarchlab/akita/v5/mem/idealmemcontroller"
	"github.com/sarchlab/akita/v5/mem/memprotocol"
	"github.com/sarchlab/akita/v5/messaging"
	"github.com/sarchlab/akita/v5/modeling"
	"github.com/sarchlab/akita/v5/noc/directconnection"
	"github.com/sarchlab/akita/v5/timing"
)

type c16Agent struct {
	*modeling.TickingComponent
	port     messaging.Port
	dst      messaging.RemotePort
	reqs     []*c16wReq
	next     int
	limit    int // requests [0,limit) may be sent
	ticks    int
	notBefore []int
	flat     *[3][64]byte
	answered int
	keepUntil int
}

func (a *c16Agent) Tick() bool {
	a.ticks++
	progress := false
	for {
		rsp := a.port.RetrieveIncoming()
		if rsp == nil {
			break
		}
		progress = true
		found := false
		for _, r := range a.reqs {
			if !r.sent || rsp.Meta().RspTo != r.id {
				continue
			}
			found = true
			r.answered++
			a.answered++
			if dr, ok := rsp.(memprotocol.DataReadyRsp); ok {
				verifrt.Assert(r.read && len(dr.Data) == r.n, "read-answered-with-data-of-the-requested-size")
				if r.read && len(dr.Data) == r.n {
					same := true
					for k := 0; k < r.n; k++ {
						same = verifrt.And(same, dr.Data[k] == r.expect[k])
					}
					verifrt.Assert(same, "read-returns-the-flat-memory-bytes")
				}
			} else {
				_, ok := rsp.(memprotocol.WriteDoneRsp)
				verifrt.Assert(ok && !r.read, "write-answered-with-write-done")
			}
		}
		verifrt.Assert(found, "response-answers-a-sent-request")
	}
	if a.next < a.limit && a.ticks >= a.notBefore[a.next] && a.port.CanSend() {
		r := a.reqs[a.next]
		free := true
		for _, o := range a.reqs[:a.next] {
			if o.answered == 0 && o.overlaps(r) {
				free = false // no two in-flight requests touch the same byte
			}
		}
		if free {
			addr := uint64(r.line)*64 + uint64(r.off)
			if r.read {
				m := memprotocol.ReadReq{Address: addr, AccessByteSize: uint64(r.n)}
				m.ID, m.Src, m.Dst = r.id, a.port.AsRemote(), a.dst
				m.TrafficBytes, m.TrafficClass = 12, "req"
				a.port.Send(m)
				r.expect = make([]byte, r.n)
				copy(r.expect, a.flat[r.line][r.off:r.off+r.n])
			} else {
				m := memprotocol.WriteReq{Address: addr, Data: r.data, DirtyMask: r.mask}
				m.ID, m.Src, m.Dst = r.id, a.port.AsRemote(), a.dst
				m.TrafficBytes, m.TrafficClass = len(r.data)+12, "req"
				a.port.Send(m)
				for k := 0; k < r.n; k++ {
					if r.mask == nil || r.mask[k] {
						a.flat[r.line][r.off+k] = r.data[k]
					}
				}
			}
			r.sent = true
			a.next++
			progress = true
		}
	}
	return progress || a.ticks < a.keepUntil || a.answered < a.next
}

func VerifC16_Stack() {
	engine := timing.NewSerialEngine()
	reg := modeling.NewStandaloneRegistrar(engine)
	port := func(c messaging.Component, name string) messaging.Port { return messaging.NewPort(c, 4, 4, name) }

	memSpec := idealmemcontroller.DefaultSpec()
	memSpec.Latency = 1 + 2*verifrt.Choice("memory-latency", verifrt.Bound("memory-latencies", 1, 1))
	memSpec.Capacity = 1 << 16
	lower := idealmemcontroller.MakeBuilder().WithRegistrar(reg).WithSpec(memSpec).
		WithResources(idealmemcontroller.Resources{Storage: mem.NewStorage(1 << 16)}).Build("Mem")
	lower.AssignPort("Top", port(lower, "Mem.Top"))
	lower.AssignPort("Control", port(lower, "Mem.Control"))

	wbSpec := DefaultSpec()
	wbSpec.WayAssociativity = 2
	wbSpec.TotalByteSize = 2 * 64
	wbSpec.NumBanks = 1
	wbSpec.BankLatency = 1
	wbSpec.DirLatency = 0
	wbSpec.NumMSHREntry = 4
	wbSpec.NumReqPerCycle = 1
	l2 := MakeBuilder().WithRegistrar(reg).WithSpec(wbSpec).
		WithResources(Resources{Storage: mem.NewStorage(128), AddressToPortMapper: &mem.SinglePortMapper{Port: "Mem.Top"}}).Build("L2")
	for _, n := range []string{"Top", "Bottom", "Control"} {
		l2.AssignPort(n, port(l2, "L2."+n))
	}
	conn := directconnection.MakeBuilder().WithRegistrar(reg).Build("Conn")
	conn.PlugIn(lower.GetPortByName("Top"))
	conn.PlugIn(l2.GetPortByName("Top"))
	conn.PlugIn(l2.GetPortByName("Bottom"))

	var flat [3][64]byte
	agent := &c16Agent{flat: &flat, dst: "L2.Top", keepUntil: 4}
	agent.TickingComponent = modeling.NewTickingComponent("Agent", engine, 1*timing.GHz, agent)
	agent.port = port(agent, "Agent.Port")
	conn.PlugIn(agent.port)

	if verifrt.Choice("write-through-l1", 2) == 1 {
		wtSpec := writethroughcache.DefaultSpec()
		wtSpec.WayAssociativity = 2
		wtSpec.TotalByteSize = 2 * 64
		wtSpec.NumBanks = 1
		wtSpec.BankLatency = 1
		wtSpec.DirLatency = 1
		wtSpec.NumReqPerCycle = 1
		wtSpec.WritePolicyType = []string{"write-through", "write-around", "write-evict"}[verifrt.Choice("write-policy", verifrt.Bound("write-policies", 1, 3))]
		l1 := writethroughcache.MakeBuilder().WithRegistrar(reg).WithSpec(wtSpec).
			WithResources(writethroughcache.Resources{Storage: mem.NewStorage(128), AddressMapper: &mem.SinglePortMapper{Port: "L2.Top"}}).Build("L1")
		for _, n := range []string{"Top", "Bottom", "Control"} {
			p := port(l1, "L1."+n)
			l1.AssignPort(n, p)
			conn.PlugIn(p)
		}
		agent.dst = "L1.Top"
		verifrt.Cover("three-levels")
	}

	n := 3
	for i := 0; i < n; i++ {
		kind := verifrt.Choice("kind", 4) // read, partial write, full-line write, masked line write
		r := &c16wReq{id: timing.GetIDGenerator().Generate(), read: kind == 0}
		if i > 0 {
			r.line = verifrt.Choice("line", 3)
		}
		if kind >= 2 {
			r.off, r.n = 0, 64
		} else {
			r.off, r.n = 8, 4
		}
		r.rbOff = r.off
		if kind < 2 {
			r.rbOff = 8
		}
		if kind == 3 {
			r.mask = make([]bool, 64)
			for k := 8; k < 12; k++ {
				r.mask[k] = true
			}
			r.rbOff = 16 // read back where the mask is false: the flat memory keeps its old bytes there
		}
		if !r.read {
			r.data = make([]byte, r.n)
			for k := range r.data {
				r.data[k] = byte(16*i + k%7 + 1)
			}
			r.data[0] = verifrt.Byte("data")
			r.data[r.n-1] = verifrt.Byte("data")
			if kind == 3 {
				r.data[8] = verifrt.Byte("data")
				r.data[16] = verifrt.Byte("data")
			}
		}
		agent.reqs = append(agent.reqs, r)
		agent.notBefore = append(agent.notBefore, 0)
	}
	for i := 1; i < n; i++ {
		agent.notBefore[i] = agent.notBefore[i-1] + 4*verifrt.Choice("send-delay", 2)
	}
	// phase 1
	agent.limit = n
	agent.TickLater()
	verifrt.Assert(engine.Run() == nil, "run")
	verifrt.Assert(agent.answered == n, "every-request-answered")
	// phase 2: read every written range back
	for i := 0; i < n; i++ {
		w := agent.reqs[i]
		if w.read {
			continue
		}
		agent.reqs = append(agent.reqs, &c16wReq{id: timing.GetIDGenerator().Generate(), read: true, line: w.line, off: w.rbOff, n: 4})
		agent.notBefore = append(agent.notBefore, 0)
		verifrt.Cover("read-back")
	}
	agent.limit = len(agent.reqs)
	agent.TickLater()
	verifrt.Assert(engine.Run() == nil, "run-read-back")
	verifrt.Assert(agent.answered == len(agent.reqs), "every-read-back-answered")
	for _, r := range agent.reqs {
		verifrt.Assert(r.answered == 1, "exactly-one-response-per-request")
	}
	verifrt.Cover("end")
}
