package writeback

// C16 (fragment: one write-back cache over a flat lower memory played by the
// harness) — three requests (read / partial write / full-line write, symbolic
// data) to three lines competing for one two-way set, in flight together as far
// as the property allows (no two in-flight requests touch the same byte), with
// symbolic send delays and lower-memory latency; afterwards every written range
// is read back. Every read returns the bytes of a flat memory after the
// acknowledged writes, never-written bytes read zero, every request gets
// exactly one response of its kind.

import (
	"github.com/sarchlab/akita/v5/internal/verifrt"
	"github.com/sarchlab/akita/v5/mem"
	"github.com/sarchlab/akita/v5/mem/memprotocol"
	"github.com/sarchlab/akita/v5/messaging"
	"github.com/sarchlab/akita/v5/modeling"
	"github.com/sarchlab/akita/v5/timing"
)

type c16wReq struct {
	id       uint64
	read     bool
	line     int
	off, n   int
	data     []byte
	mask     []bool // masked line write: only the bytes with a true entry are written
	rbOff    int    // read-back offset (a masked write is read back where its mask is false)
	expect   []byte
	sent     bool
	answered int
}

func (r *c16wReq) overlaps(o *c16wReq) bool {
	return r.line == o.line && r.off < o.off+o.n && o.off < r.off+r.n
}

type c16wPending struct {
	due int
	msg messaging.Msg
}

func VerifC16_WriteBack() {
	engine := timing.NewSerialEngine()
	spec := DefaultSpec()
	spec.WayAssociativity = 2
	spec.TotalByteSize = 2 * 64 // one set, two ways
	spec.NumBanks = 1
	spec.BankLatency = 1
	spec.DirLatency = 0
	spec.NumMSHREntry = 4
	spec.NumReqPerCycle = 1 + verifrt.Choice("req-per-cycle", verifrt.Bound("req-per-cycle-choices", 1, 2))
	comp := MakeBuilder().WithRegistrar(modeling.NewStandaloneRegistrar(engine)).WithSpec(spec).
		WithResources(Resources{Storage: mem.NewStorage(128), AddressToPortMapper: &mem.SinglePortMapper{Port: "Mem.Top"}}).Build("L2")
	wire := &vpWire{}
	mk := func(name string) messaging.Port {
		p := messaging.NewPort(comp, 4, 4, "L2."+name)
		p.SetConnection(wire)
		comp.AssignPort(name, p)
		return p
	}
	top := mk("Top")
	bottom := mk("Bottom")
	mk("Control")

	const nLines = 3
	var lower [nLines][64]byte // the lower memory, played by the harness
	var flat [nLines][64]byte  // the reference flat memory
	lineAddr := func(l int) uint64 { return uint64(l) * 64 }

	n := 3
	reqs := make([]*c16wReq, 0, 2*n)
	for i := 0; i < n; i++ {
		kind := verifrt.Choice("kind", 3) // read, partial write, full-line write
		r := &c16wReq{id: timing.GetIDGenerator().Generate(), read: kind == 0}
		if i > 0 {
			r.line = verifrt.Choice("line", nLines)
		}
		switch kind {
		case 0, 1:
			r.off, r.n = 8, 4
		case 2:
			r.off, r.n = 0, 64
		}
		if !r.read {
			r.data = make([]byte, r.n)
			for k := range r.data {
				r.data[k] = byte(16*i + k%7 + 1)
			}
			r.data[0] = verifrt.Byte("data")
			r.data[r.n-1] = verifrt.Byte("data")
		}
		reqs = append(reqs, r)
	}
	delay := make([]int, n)
	for i := 1; i < n; i++ {
		delay[i] = 4 * verifrt.Choice("send-delay", 2)
	}
	memLat := 1 + 2*verifrt.Choice("memory-latency", 2)

	send := func(r *c16wReq) {
		if r.read {
			m := memprotocol.ReadReq{Address: lineAddr(r.line) + uint64(r.off), AccessByteSize: uint64(r.n)}
			m.ID, m.Src, m.Dst = r.id, "Core.Port", top.AsRemote()
			top.Deliver(m)
			r.expect = make([]byte, r.n)
			copy(r.expect, flat[r.line][r.off:r.off+r.n])
		} else {
			m := memprotocol.WriteReq{Address: lineAddr(r.line) + uint64(r.off), Data: r.data}
			m.ID, m.Src, m.Dst = r.id, "Core.Port", top.AsRemote()
			top.Deliver(m)
			copy(flat[r.line][r.off:r.off+r.n], r.data)
		}
		r.sent = true
	}
	var pend []c16wPending
	answered := 0
	step := func(tick int) {
		comp.Tick()
		// the lower memory
		for bottom.PeekOutgoing() != nil {
			switch m := bottom.RetrieveOutgoing().(type) {
			case memprotocol.ReadReq:
				l, off := int(m.Address/64), int(m.Address%64)
				verifrt.Assert(l < nLines && off+int(m.AccessByteSize) <= 64, "fetch-stays-inside-a-line")
				rsp := memprotocol.DataReadyRsp{Data: append([]byte(nil), lower[l][off:off+int(m.AccessByteSize)]...)}
				rsp.ID, rsp.Src, rsp.Dst, rsp.RspTo = timing.GetIDGenerator().Generate(), "Mem.Top", m.Src, m.ID
				pend = append(pend, c16wPending{tick + memLat, rsp})
			case memprotocol.WriteReq:
				l, off := int(m.Address/64), int(m.Address%64)
				verifrt.Assert(l < nLines && off+len(m.Data) <= 64, "write-back-stays-inside-a-line")
				for k := range m.Data {
					if m.DirtyMask == nil || m.DirtyMask[k] {
						lower[l][off+k] = m.Data[k]
					}
				}
				rsp := memprotocol.WriteDoneRsp{}
				rsp.ID, rsp.Src, rsp.Dst, rsp.RspTo = timing.GetIDGenerator().Generate(), "Mem.Top", m.Src, m.ID
				pend = append(pend, c16wPending{tick + memLat, rsp})
			default:
				verifrt.Assert(false, "only-reads-and-writes-reach-the-lower-memory")
			}
		}
		for len(pend) > 0 && pend[0].due <= tick && bottom.CanDeliver() {
			bottom.Deliver(pend[0].msg)
			pend = pend[1:]
		}
		// the requester
		for top.PeekOutgoing() != nil {
			rsp := top.RetrieveOutgoing()
			found := false
			for _, r := range reqs {
				if !r.sent || rsp.Meta().RspTo != r.id {
					continue
				}
				found = true
				r.answered++
				answered++
				verifrt.Assert(rsp.Meta().Dst == "Core.Port", "response-addressed-to-the-sender")
				if dr, ok := rsp.(memprotocol.DataReadyRsp); ok {
					verifrt.Assert(r.read && len(dr.Data) == r.n, "read-answered-with-data-of-the-requested-size")
					if r.read && len(dr.Data) == r.n {
						same := true
						for k := 0; k < r.n; k++ {
							same = verifrt.And(same, dr.Data[k] == r.expect[k])
						}
						verifrt.Assert(same, "read-returns-the-flat-memory-bytes")
					}
				} else {
					_, ok := rsp.(memprotocol.WriteDoneRsp)
					verifrt.Assert(ok && !r.read, "write-answered-with-write-done")
				}
			}
			verifrt.Assert(found, "response-answers-a-sent-request")
		}
	}

	// phase 1: the requests, concurrently as far as the property allows
	next, nextAt, tick := 0, 0, 0
	for ; tick < 120 && answered < n; tick++ {
		if next < n && tick >= nextAt && top.CanDeliver() {
			r := reqs[next]
			free := true
			for _, o := range reqs[:next] {
				if o.answered == 0 && o.overlaps(r) {
					free = false // no two in-flight requests touch the same byte
				}
			}
			if free {
				send(r)
				next++
				if next < n {
					nextAt = tick + delay[next]
				}
			}
		}
		step(tick)
	}
	verifrt.Assert(answered == n, "every-request-answered")
	// phase 2: read every written range back, one at a time
	for i := 0; i < n; i++ {
		w := reqs[i]
		if w.read {
			continue
		}
		rb := &c16wReq{id: timing.GetIDGenerator().Generate(), read: true, line: w.line, off: w.off, n: 4}
		reqs = append(reqs, rb)
		send(rb)
		want := answered + 1
		for k := 0; k < 60 && answered < want; k++ {
			step(tick)
			tick++
		}
		verifrt.Assert(answered == want, "read-back-answered")
		verifrt.Cover("read-back")
	}
	for _, r := range reqs {
		verifrt.Assert(r.answered == 1, "exactly-one-response-per-request")
	}
	verifrt.Cover("end")
}
