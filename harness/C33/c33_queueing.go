package queueing

// C33 (fragment) — a buffer hook does not change the buffer.

import (
	"github.com/sarchlab/akita/v5/hooking"
	"github.com/sarchlab/akita/v5/internal/verifrt"
)

type c33Hook struct{ n int }

func (h *c33Hook) Func(ctx hooking.HookCtx) { h.n++ }

func VerifC33_BufferObserved() {
	capN := verifrt.Choice("cap", 4)
	a := NewBuffer[uint64]("b", capN)
	b := NewBuffer[uint64]("b", capN)
	h := &c33Hook{}
	a.AcceptHook(h)
	for i := 0; i < verifrt.Bound("ops", 5, 7); i++ {
		switch verifrt.Choice("op", 3) {
		case 0:
			v := verifrt.Uint64("v")
			if a.CanPush() {
				a.PushTyped(v)
				b.PushTyped(v)
			}
		case 1:
			verifrt.Assert(a.Pop() == b.Pop(), "same-pop")
		case 2:
			verifrt.Assert(a.Peek() == b.Peek(), "same-peek")
		}
		verifrt.Assert(a.Size() == b.Size() && a.CanPush() == b.CanPush(), "same-size-and-flow-control")
	}
	verifrt.Cover("end")
}
