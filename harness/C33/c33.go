package tracing

// C33 (fragment: the hook sites of the port layer and the tracing API) —
// observing does not change the simulation: the same history on a traced and
// an untraced port gives the same results, the same buffer contents and the
// same notifications; the untraced run never consults the clock and leaves
// the id registries untouched.

import (
	"github.com/sarchlab/akita/v5/internal/verifrt"
	"github.com/sarchlab/akita/v5/timing"
)

func VerifC33_PortObserved() {
	inCap, outCap := 1+verifrt.Choice("incap", 2), 1+verifrt.Choice("outcap", 2)
	a := tpNew(inCap, outCap, true)
	b := tpNew(inCap, outCap, false)
	ops, ids, dts := tpDrawHistory(verifrt.Bound("ops", 5, 6))
	var now timing.VTimeInPicoSec
	for i := range ops {
		now += timing.VTimeInPicoSec(dts[i])
		a.step(ops[i], ids[i], now)
		r0, i0, o0 := len(receiverTaskIDs), len(incomingBufferTaskIDs), len(outgoingBufferTaskIDs)
		c0 := b.owner.clockReads
		b.step(ops[i], ids[i], now)
		verifrt.Assert(b.owner.clockReads == c0, "unobserved-run-never-reads-the-clock")
		verifrt.Assert(len(receiverTaskIDs) == r0 && len(incomingBufferTaskIDs) == i0 && len(outgoingBufferTaskIDs) == o0, "unobserved-run-leaves-registries-untouched")
		verifrt.Assert(a.port.NumIncoming() == b.port.NumIncoming() && a.port.NumOutgoing() == b.port.NumOutgoing(), "same-buffer-sizes")
		verifrt.Assert(a.port.CanSend() == b.port.CanSend() && a.port.CanDeliver() == b.port.CanDeliver(), "same-flow-control")
		verifrt.Assert(a.owner.recv == b.owner.recv && a.owner.free == b.owner.free && a.conn.avail == b.conn.avail && a.conn.send == b.conn.send, "same-notifications")
	}
	verifrt.Assert(len(a.results) == len(b.results), "same-number-of-results")
	for i := range a.results {
		if i < len(b.results) {
			verifrt.Assert(a.results[i] == b.results[i], "same-results-in-the-same-order")
		}
	}
	if a.tracer != nil && len(a.tracer.events) > 0 {
		verifrt.Cover("observed-something")
	}
	verifrt.Cover("end")
}
