package timing

// C33 (fragment) — an engine hook does not change what runs or in what order.

import "github.com/sarchlab/akita/v5/internal/verifrt"

func VerifC33_EngineObserved() {
	p := vpDraw(verifrt.Bound("events", 4, 5))
	a := vpNewRun(p, false)
	hook := &vpHook{}
	a.e.AcceptHook(hook)
	a.start()
	verifrt.Assert(a.e.Run() == nil, "run-observed")
	b := vpNewRun(p, false)
	b.start()
	verifrt.Assert(b.e.Run() == nil, "run-unobserved")
	verifrt.Assert(len(a.handled) == p.n && len(b.handled) == p.n, "both-handle-everything")
	for i := range a.handled {
		if i < len(b.handled) {
			verifrt.Assert(a.handled[i] == b.handled[i], "same-order-with-and-without-hook")
		}
	}
	verifrt.Assert(a.e.CurrentTime() == b.e.CurrentTime(), "same-final-time")
	verifrt.Assert(hook.before == p.n && hook.after == p.n, "hook-saw-every-event")
	verifrt.Cover("end")
}
