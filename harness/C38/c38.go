package httpapi

// C38 (fragment) — the address classification behind the LLM endpoint guard:
// every address of a loopback / private / link-local / unspecified class, in
// 4-byte, 16-byte and IPv4-mapped form, is classified internal. All address
// bytes are symbolic (2^32 + 2^128 addresses); the oracle is an independent
// CIDR table. The guard may refuse more, never less.

import (
	"net"

	"github.com/sarchlab/akita/v5/internal/verifrt"
)

func c38V4Class(a, b, c, d byte) bool {
	or := verifrt.Or
	and := verifrt.And
	cls := a == 127                                  // 127.0.0.0/8 loopback
	cls = or(cls, a == 10)                           // 10.0.0.0/8
	cls = or(cls, and(a == 172, b&0xf0 == 16))       // 172.16.0.0/12
	cls = or(cls, and(a == 192, b == 168))           // 192.168.0.0/16
	cls = or(cls, and(a == 169, b == 254))           // 169.254.0.0/16 link-local
	cls = or(cls, and(and(a == 224, b == 0), c == 0)) // 224.0.0.0/24 link-local multicast
	cls = or(cls, and(and(a == 0, b == 0), and(c == 0, d == 0))) // 0.0.0.0
	return cls
}

// VerifC38_V4: every 4-byte address.
func VerifC38_V4() {
	b := []byte{verifrt.Byte("a"), verifrt.Byte("b"), verifrt.Byte("c"), verifrt.Byte("d")}
	internal := isInternalIP(net.IP(b))
	verifrt.Observe("internal", internal)
	verifrt.Assert(verifrt.Implies(c38V4Class(b[0], b[1], b[2], b[3]), internal), "internal-v4-class-is-refused")
	if internal {
		verifrt.Cover("internal")
	} else {
		verifrt.Cover("public")
	}
	verifrt.Cover("end")
}

// VerifC38_V6: every 16-byte address, including IPv4-mapped ones.
func VerifC38_V6() {
	b := make([]byte, 16)
	for i := range b {
		b[i] = verifrt.Byte("x")
	}
	internal := isInternalIP(net.IP(b))
	verifrt.Observe("internal", internal)
	or := verifrt.Or
	and := verifrt.And
	zero := func(lo, hi int) bool {
		z := true
		for i := lo; i < hi; i++ {
			z = and(z, b[i] == 0)
		}
		return z
	}
	mapped := and(zero(0, 10), and(b[10] == 0xff, b[11] == 0xff))
	cls := and(zero(0, 15), b[15] == 1)                           // ::1
	cls = or(cls, zero(0, 16))                                    // ::
	cls = or(cls, b[0]&0xfe == 0xfc)                              // fc00::/7 unique local
	cls = or(cls, and(b[0] == 0xfe, b[1]&0xc0 == 0x80))           // fe80::/10 link-local
	cls = or(cls, and(b[0] == 0xff, b[1]&0x0f == 0x02))           // ffx2::/16 link-local multicast
	cls = or(cls, and(mapped, c38V4Class(b[12], b[13], b[14], b[15]))) // ::ffff:a.b.c.d
	verifrt.Assert(verifrt.Implies(cls, internal), "internal-v6-class-is-refused")
	if internal {
		verifrt.Cover("internal")
	} else {
		verifrt.Cover("public")
	}
	verifrt.Cover("end")
}
