package dram

// C22 (fragment) — the real DRAM component (all middlewares) built from a
// preset serves a short request stream with symbolic addresses (row, bank and
// column bits) and symbolic write data. The issued command stream is observed
// through the component's command-issue milestones and checked against an
// independent reference: the per-bank DRAM state machine and the minimum
// separations computed from the preset's timing parameters. Every request is
// answered exactly once and reads return the data of the last earlier write.

import (
	"github.com/sarchlab/akita/v5/hooking"
	"github.com/sarchlab/akita/v5/internal/verifrt"
	"github.com/sarchlab/akita/v5/mem"
	"github.com/sarchlab/akita/v5/mem/memprotocol"
	"github.com/sarchlab/akita/v5/messaging"
	"github.com/sarchlab/akita/v5/modeling"
	"github.com/sarchlab/akita/v5/timing"
	"github.com/sarchlab/akita/v5/tracing"
)

type c22Cmd struct {
	tick uint64
	kind commandKind
	loc  location
}

type c22Obs struct {
	comp *Comp
	cmds []c22Cmd
}

func (o *c22Obs) Func(ctx hooking.HookCtx) {
	ms, ok := ctx.Item.(tracing.Milestone)
	if !ok || ms.Kind != tracing.MilestoneKindHardwareResource {
		return
	}
	kind := numCmdKind
	for k := commandKind(0); k < numCmdKind; k++ {
		if k.String() == ms.What {
			kind = k
		}
	}
	if kind == numCmdKind {
		return
	}
	st := &o.comp.State
	for i := range st.Transactions {
		for j := range st.Transactions[i].SubTransactions {
			sub := &st.Transactions[i].SubTransactions[j]
			if sub.ID == ms.TaskID {
				spec := o.comp.Spec()
				o.cmds = append(o.cmds, c22Cmd{tick: st.TickCount, kind: kind, loc: mapAddress(&spec, sub.Address)})
				return
			}
		}
	}
	verifrt.Assert(false, "issued-command-belongs-to-a-live-sub-transaction")
}

// c22Ref is the reference model of one bank.
type c22Bank struct {
	open bool
	row  uint64
	last [numCmdKind]uint64 // tick+1 of the last command of each kind (0 = never)
}

func c22Since(now, last uint64) (uint64, bool) {
	if last == 0 {
		return 0, false
	}
	return now - (last - 1), true
}

// c22Check replays the observed command stream against the reference.
func c22Check(s *Spec, cmds []c22Cmd) {
	proto := protocol(s.Protocol)
	actToRead, actToWrite := s.TRCD-s.TAL, s.TRCD-s.TAL
	if proto.isGDDR() || proto.isHBM() {
		actToRead, actToWrite = s.TRCDRD, s.TRCDWR
	}
	readToPre := s.TAL + s.TRTP
	writeToPre := s.TWL + s.BurstCycle + s.TWR
	nb := s.NumRank * s.NumBankGroup * s.NumBank
	banks := make([]c22Bank, nb)
	var acts []uint64 // activate ticks (single rank)
	var lastTick uint64
	for i, c := range cmds {
		if i > 0 {
			verifrt.Assert(c.tick > lastTick, "at-most-one-command-per-cycle")
		}
		lastTick = c.tick
		bi := (int(c.loc.Rank)*s.NumBankGroup+int(c.loc.BankGroup))*s.NumBank + int(c.loc.Bank)
		b := &banks[bi]
		need := func(prev commandKind, min int, label string) {
			if d, ok := c22Since(c.tick, b.last[prev]); ok {
				verifrt.Assert(int64(d) >= int64(min), label)
			}
		}
		switch c.kind {
		case cmdKindActivate:
			verifrt.Assert(!b.open, "activate-only-on-a-precharged-bank")
			need(cmdKindPrecharge, s.TRP, "precharge-to-activate-at-least-tRP")
			need(cmdKindActivate, s.TRAS+s.TRP, "activate-to-activate-same-bank-at-least-tRC")
			need(cmdKindReadPrecharge, readToPre+s.TRP, "read-autoprecharge-to-activate-at-least-tRTP+tRP")
			need(cmdKindWritePrecharge, writeToPre+s.TRP, "write-autoprecharge-to-activate-at-least-tWL+burst+tWR+tRP")
			// other banks of the rank: tRRD
			for oi := range banks {
				if oi == bi {
					continue
				}
				if d, ok := c22Since(c.tick, banks[oi].last[cmdKindActivate]); ok {
					sameGroup := oi/s.NumBank == bi/s.NumBank
					min := s.TRRDS
					if sameGroup && s.NumBankGroup > 1 {
						min = s.TRRDL
					}
					verifrt.Assert(int64(d) >= int64(min), "activate-to-activate-other-bank-at-least-tRRD")
				}
			}
			if s.TFAW > 0 && len(acts) >= 4 {
				verifrt.Assert(int64(c.tick-acts[len(acts)-4]) >= int64(s.TFAW), "at-most-four-activates-per-tFAW-window")
			}
			acts = append(acts, c.tick)
			b.open, b.row = true, c.loc.Row
		case cmdKindPrecharge:
			verifrt.Assert(b.open, "precharge-only-on-an-open-bank")
			need(cmdKindActivate, s.TRAS, "activate-to-precharge-at-least-tRAS")
			need(cmdKindRead, readToPre, "read-to-precharge-at-least-tRTP")
			need(cmdKindWrite, writeToPre, "write-to-precharge-at-least-tWL+burst+tWR")
			b.open = false
		case cmdKindRead, cmdKindReadPrecharge, cmdKindWrite, cmdKindWritePrecharge:
			verifrt.Assert(b.open && b.row == c.loc.Row, "column-command-only-on-the-open-row")
			if c.kind == cmdKindRead || c.kind == cmdKindReadPrecharge {
				need(cmdKindActivate, actToRead, "activate-to-read-at-least-tRCD")
			} else {
				need(cmdKindActivate, actToWrite, "activate-to-write-at-least-tRCD")
			}
			if c.kind == cmdKindReadPrecharge || c.kind == cmdKindWritePrecharge {
				b.open = false
			}
		default:
			verifrt.Assert(false, "only-row-and-column-commands-are-issued-for-requests")
		}
		b.last[c.kind] = c.tick + 1
	}
}

var c22Presets = []*Spec{&DDR4Spec, &HBM2Spec, &GDDR6Spec, &DDR5Spec, &HBM3Spec}

var _ = [1]int{}

type c22Req struct {
	id       uint64
	write    bool
	addr     uint64
	data     [4]byte
	expect   [4]byte // reads: the reference memory content at arrival order
	answered int
}

func VerifC22_Stream() {
	engine := timing.NewSerialEngine()
	spec := *c22Presets[verifrt.Choice("preset", verifrt.Bound("presets", 2, 5))]
	if verifrt.Choice("open-page", 2) == 1 {
		spec.PagePolicy = PagePolicyOpen
	}
	storage := mem.NewStorage(1 << 30)
	comp := MakeBuilder().WithRegistrar(modeling.NewStandaloneRegistrar(engine)).WithSpec(spec).
		WithResources(Resources{Storage: storage}).Build("DRAM")
	wire := &vpWire{}
	top := messaging.NewPort(comp, 4, 1+verifrt.Choice("top-out-capacity", verifrt.Bound("out-capacities", 1, 2)), "DRAM.Top")
	top.SetConnection(wire)
	comp.AssignPort("Top", top)
	ctrl := messaging.NewPort(comp, 2, 2, "DRAM.Control")
	ctrl.SetConnection(wire)
	comp.AssignPort("Control", ctrl)
	obs := &c22Obs{comp: comp}
	comp.AcceptHook(obs)
	built := comp.Spec()

	n := 3
	reqs := make([]*c22Req, n)
	for i := range reqs {
		r := &c22Req{id: timing.GetIDGenerator().Generate(), write: verifrt.Choice("write", 2) == 1}
		var row, bank, col uint64 // the first request goes to (0,0,0): the others are symbolic relative to it
		if i > 0 {
			row = verifrt.Uint64Range("row", 0, 1)
			bank = verifrt.Uint64Range("bank", 0, 1)
			col = verifrt.Uint64Range("col", 0, 1)
		}
		r.addr = row<<built.RowPos | bank<<built.BankPos | col<<built.ColPos<<built.Log2AccessUnitSize
		if r.write {
			for k := range r.data {
				r.data[k] = verifrt.Byte("data")
			}
		} else {
			// reference memory: the data of the last earlier write to the same address (0 if none)
			for _, o := range reqs[:i] {
				if !o.write {
					continue
				}
				same := o.addr == r.addr
				for k := range r.expect {
					r.expect[k] = byte(verifrt.IteU64(same, uint64(o.data[k]), uint64(r.expect[k])))
				}
			}
		}
		reqs[i] = r
	}
	gaps := []int{0, 30, 1}
	gap := gaps[verifrt.Choice("arrival-gap", verifrt.Bound("gaps", 2, 3))]
	drainFrom := []int{0, 120}[verifrt.Choice("sink-blocked-until", 2)]

	sent, answered := 0, 0
	nextSend := 0
	maxTicks := 900
	tick := 0
	for ; tick < maxTicks && answered < n; tick++ {
		if sent < n && tick >= nextSend && top.CanDeliver() {
			r := reqs[sent]
			if r.write {
				m := memprotocol.WriteReq{Address: r.addr, Data: r.data[:]}
				m.ID, m.Src, m.Dst = r.id, "Core.Port", top.AsRemote()
				top.Deliver(m)
			} else {
				m := memprotocol.ReadReq{Address: r.addr, AccessByteSize: 4}
				m.ID, m.Src, m.Dst = r.id, "Core.Port", top.AsRemote()
				top.Deliver(m)
			}
			sent++
			nextSend = tick + gap
		}
		comp.Tick()
		if tick >= drainFrom {
			for top.PeekOutgoing() != nil {
				rsp := top.RetrieveOutgoing()
				found := false
				for _, r := range reqs {
					if rsp.Meta().RspTo != r.id {
						continue
					}
					found = true
					r.answered++
					answered++
					if dr, ok := rsp.(memprotocol.DataReadyRsp); ok {
						verifrt.Assert(!r.write && len(dr.Data) == 4, "read-answered-with-data")
						if !r.write && len(dr.Data) == 4 {
							same := true
							for k := 0; k < 4; k++ {
								same = verifrt.And(same, dr.Data[k] == r.expect[k])
							}
							verifrt.Assert(same, "read-returns-the-last-written-data")
						}
					} else {
						_, ok := rsp.(memprotocol.WriteDoneRsp)
						verifrt.Assert(ok && r.write, "write-answered-with-write-done")
					}
				}
				verifrt.Assert(found, "response-answers-a-request")
			}
		}
	}
	verifrt.Assert(answered == n && sent == n, "every-request-completes")
	for _, r := range reqs {
		verifrt.Assert(r.answered == 1, "every-request-answered-exactly-once")
	}
	c22Check(&built, obs.cmds)
	if len(obs.cmds) >= 4 {
		verifrt.Cover("four-commands")
	}
	for _, c := range obs.cmds {
		if c.kind == cmdKindPrecharge {
			verifrt.Cover("explicit-precharge")
		}
	}
	verifrt.Cover("end")
}
