package dram

// C18 (fragment: the DRAM controller) — see ctrl_mem_dram.go.

import (
	"github.com/sarchlab/akita/v5/internal/verifrt"
	"github.com/sarchlab/akita/v5/mem"
	"github.com/sarchlab/akita/v5/messaging"
	"github.com/sarchlab/akita/v5/modeling"
	"github.com/sarchlab/akita/v5/timing"
)

func VerifC18_DRAM() {
	engine := timing.NewSerialEngine()
	spec := DefaultSpec()
	// short timing so that a read completes within a few cycles
	spec.TCL, spec.TCWL, spec.TRCD, spec.TRP, spec.TRAS = 1, 1, 1, 1, 2
	spec.TRTP, spec.TWR, spec.TCCDL, spec.TCCDS, spec.TRRDL, spec.TRRDS = 1, 1, 1, 1, 1, 1
	spec.TWTRL, spec.TWTRS, spec.TRTRS = 1, 1, 1
	spec.BurstLength = 2
	comp := MakeBuilder().WithRegistrar(modeling.NewStandaloneRegistrar(engine)).WithSpec(spec).
		WithResources(Resources{Storage: mem.NewStorage(1 << 20)}).Build("DRAM")
	wire := &vpWire{}
	mk := func(name string, capN int) messaging.Port {
		p := messaging.NewPort(comp, capN, capN, "DRAM."+name)
		p.SetConnection(wire)
		comp.AssignPort(name, p)
		return p
	}
	top := mk("Top", 4)
	ctrl := mk("Control", 2)
	c18RunMem(comp.Tick, top, ctrl, &comp.State.ControlState, func() int { return len(comp.State.Transactions) }, 60, verifrt.Bound("data-reads", 1, 2), 2)
}
