package simplebankedmemory

// C18 (fragment: the simple banked memory) — see ctrl_mem_sbm.go.

import (
	"github.com/sarchlab/akita/v5/internal/verifrt"
	"github.com/sarchlab/akita/v5/mem"
	"github.com/sarchlab/akita/v5/messaging"
	"github.com/sarchlab/akita/v5/modeling"
	"github.com/sarchlab/akita/v5/timing"
)

func VerifC18_SBM() {
	engine := timing.NewSerialEngine()
	spec := DefaultSpec()
	spec.NumBanks = 1
	spec.StageLatency = 1
	spec.Capacity = 1 << 16
	comp := MakeBuilder().WithRegistrar(modeling.NewStandaloneRegistrar(engine)).WithSpec(spec).
		WithResources(Resources{Storage: mem.NewStorage(1 << 16)}).Build("SBM")
	wire := &vpWire{}
	mk := func(name string, capN int) messaging.Port {
		p := messaging.NewPort(comp, capN, capN, "SBM."+name)
		p.SetConnection(wire)
		comp.AssignPort(name, p)
		return p
	}
	top := mk("Top", 4)
	ctrl := mk("Control", 2)
	inflight := func() int {
		n := 0
		for i := range comp.State.Banks {
			b := &comp.State.Banks[i]
			n += len(b.Pipeline.Stages()) + b.PostPipelineBuf.Size()
		}
		return n
	}
	c18RunMem(comp.Tick, top, ctrl, &comp.State.ControlState, inflight, 30, verifrt.Bound("data-reads", 1, 2), 2)
}
