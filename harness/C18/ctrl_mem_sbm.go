package simplebankedmemory

// Shared driver of the C18 harnesses for memory-like agents (Top + Control
// ports, answering reads on Top): k control requests with arbitrary verbs
// interleaved with data reads at arbitrary ticks, checked against the control
// protocol as a reference FSM.

import (
	"github.com/sarchlab/akita/v5/internal/verifrt"
	"github.com/sarchlab/akita/v5/mem/memcontrolprotocol"
	"github.com/sarchlab/akita/v5/mem/memprotocol"
	"github.com/sarchlab/akita/v5/messaging"
	"github.com/sarchlab/akita/v5/timing"
)

type c18Data struct {
	id       uint64
	sent     bool
	answered int
	preReset bool // sent before a reset was acknowledged: must never be answered afterwards
}

// c18RunMem: step advances the agent one cycle; ctrlState points at its
// ControlState; inflight reports the number of requests it holds.
func c18RunMem(step func() bool, top, ctrl messaging.Port, ctrlState *memcontrolprotocol.State, inflight func() int, maxTicks, nData, nCtrl int) {
	verbs := []memcontrolprotocol.Command{memcontrolprotocol.CmdPause, memcontrolprotocol.CmdDrain, memcontrolprotocol.CmdEnable,
		memcontrolprotocol.CmdReset, memcontrolprotocol.CmdInvalidate, memcontrolprotocol.CmdFlush, memcontrolprotocol.Command(99)}
	type ctl struct {
		id   uint64
		verb memcontrolprotocol.Command
	}
	ctls := make([]ctl, nCtrl)
	for i := range ctls {
		ctls[i] = ctl{id: timing.GetIDGenerator().Generate(), verb: verbs[verifrt.Choice("verb", len(verbs))]}
	}
	datas := make([]*c18Data, nData)
	for i := range datas {
		datas[i] = &c18Data{id: timing.GetIDGenerator().Generate()}
	}
	sentCtl, ackCtl, sentData := 0, 0, 0
	paused := false        // between a pause/drain acknowledgement and the next enable/reset acknowledgement
	drainWhilePaused := false // a Drain was sent after a Pause acknowledgement and before any Enable/Reset
	idle := 3
	for tick := 0; tick < maxTicks; tick++ {
		if sentCtl < nCtrl && ctrl.CanDeliver() && (idle == 0 || tick >= 10 || verifrt.Choice("send-control", 2) == 1) {
			m := memcontrolprotocol.Req{Command: ctls[sentCtl].verb}
			m.ID, m.Src, m.Dst = ctls[sentCtl].id, "Driver.Port", ctrl.AsRemote()
			ctrl.Deliver(m)
			if ctls[sentCtl].verb == memcontrolprotocol.CmdDrain && sentCtl > 0 {
				for _, prev := range ctls[:sentCtl] {
					if prev.verb == memcontrolprotocol.CmdPause || prev.verb == memcontrolprotocol.CmdDrain {
						drainWhilePaused = true
					}
					if prev.verb == memcontrolprotocol.CmdEnable || prev.verb == memcontrolprotocol.CmdReset {
						drainWhilePaused = false
					}
				}
			}
			sentCtl++
		} else if sentCtl < nCtrl && idle > 0 {
			idle--
		}
		if tick < 10 && sentData < len(datas) && top.CanDeliver() && verifrt.Choice("send-data", 2) == 1 {
			m := memprotocol.ReadReq{Address: uint64(8 * sentData), AccessByteSize: 4}
			m.ID, m.Src, m.Dst = datas[sentData].id, "Core.Port", top.AsRemote()
			top.Deliver(m)
			datas[sentData].sent = true
			sentData++
		}
		step()
		// control responses: one per request, in request order, carrying command and id
		for ctrl.PeekOutgoing() != nil {
			rsp, ok := ctrl.RetrieveOutgoing().(memcontrolprotocol.Rsp)
			verifrt.Assert(ok && ackCtl < sentCtl, "control-response-answers-a-sent-request")
			if !ok || ackCtl >= sentCtl {
				continue
			}
			c := ctls[ackCtl]
			ackCtl++
			// the agent's state can only be inspected between ticks: when a later
			// command was also handled in this tick the state already reflects it
			last := ctrl.PeekOutgoing() == nil && ctrl.NumIncoming() == sentCtl-ackCtl
			verifrt.Assert(rsp.RspTo == c.id && rsp.Command == c.verb && rsp.Dst == "Driver.Port", "control-responses-in-request-order-with-command-and-id")
			switch c.verb {
			case memcontrolprotocol.CmdPause:
				verifrt.Assert(rsp.Success, "pause-acknowledged")
				paused = true
			case memcontrolprotocol.CmdDrain:
				verifrt.Assert(rsp.Success, "drain-acknowledged")
				if last {
					verifrt.Assert(inflight() == 0 && (*ctrlState) == memcontrolprotocol.StatePaused, "drain-acknowledgement-leaves-the-agent-quiescent-and-paused")
				}
				paused = true
				verifrt.Cover("drained")
			case memcontrolprotocol.CmdEnable:
				verifrt.Assert(rsp.Success && (!last || (*ctrlState) == memcontrolprotocol.StateEnabled), "enable-acknowledged")
				paused = false
			case memcontrolprotocol.CmdReset:
				verifrt.Assert(rsp.Success, "reset-acknowledged")
				if last {
					verifrt.Assert(inflight() == 0 && (*ctrlState) == memcontrolprotocol.StateEnabled && top.NumIncoming() == 0, "reset-acknowledgement-leaves-the-agent-empty-and-enabled")
				}
				for _, d := range datas {
					if d.sent && d.answered == 0 {
						d.preReset = true
					}
				}
				paused = false
				verifrt.Cover("reset")
			default:
				verifrt.Assert(!rsp.Success && rsp.Error == memcontrolprotocol.ErrUnsupported, "unsupported-verb-refused-as-unsupported")
				verifrt.Cover("unsupported")
			}
		}
		// data responses
		for top.PeekOutgoing() != nil {
			rsp := top.RetrieveOutgoing()
			if paused && drainWhilePaused {
				// specific history: Pause acknowledged, then Drain: the drain un-freezes the in-flight work
				verifrt.Assert(false, "no-data-response-after-pause-then-drain")
			} else {
				verifrt.Assert(!paused, "no-data-response-between-pause-acknowledgement-and-enable")
			}
			for _, d := range datas {
				if rsp.Meta().RspTo == d.id {
					d.answered++
					verifrt.Assert(!d.preReset, "no-response-to-a-pre-reset-request")
					verifrt.Assert(d.answered == 1, "data-request-answered-at-most-once")
				}
			}
			verifrt.Cover("data-answered")
		}
	}
	verifrt.Assert(sentCtl == nCtrl && ackCtl == nCtrl, "every-control-request-answered-exactly-once")
	if !paused && (*ctrlState) == memcontrolprotocol.StateEnabled {
		for _, d := range datas {
			if d.sent && !d.preReset {
				verifrt.Assert(d.answered == 1, "requests-are-served-once-the-agent-is-enabled")
			}
		}
	}
	verifrt.Cover("end")
}
