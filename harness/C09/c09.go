package directconnection

// C09 — no lost wake-ups: when the event queue becomes empty no port holds an
// outgoing message its connection could deliver, and no draining component has
// an unread incoming message.
//
// Bounded scenarios on the real SerialEngine with real ports, real direct
// connections (builder-built), real EventDrivenComponent / TickingComponent.
// Behaviour (send instants, stall/ready instants, capacities, which component
// is scheduled first) is symbolic; the topology is concrete.

import (
	"github.com/sarchlab/akita/v5/internal/verifrt"
	"github.com/sarchlab/akita/v5/messaging"
	"github.com/sarchlab/akita/v5/modeling"
	"github.com/sarchlab/akita/v5/timing"
)

type c09Spec struct{ N int }
type c09State struct{ N int }
type c09Res struct{}
type c09ED = modeling.EventDrivenComponent[c09Spec, c09State, c09Res]

type c09Msg struct {
	messaging.MsgMeta
	seq int
}

func (m *c09Msg) Meta() messaging.MsgMeta { return m.MsgMeta }

type c09World struct {
	engine *timing.SerialEngine
	reg    modeling.Registrar
	ports  []messaging.Port
	peer   map[messaging.Port]messaging.Port // for the end-of-run check: destination of each port's traffic
	sent   int
	recvd  []int
}

func c09NewWorld() *c09World {
	e := timing.NewSerialEngine()
	return &c09World{engine: e, reg: modeling.NewStandaloneRegistrar(e), peer: map[messaging.Port]messaging.Port{}}
}

func (w *c09World) port(owner messaging.Component, name string, inCap, outCap int) messaging.Port {
	p := messaging.NewPort(owner, inCap, outCap, name)
	w.ports = append(w.ports, p)
	return p
}

func (w *c09World) connect(name string, a, b messaging.Port) {
	conn := MakeBuilder().WithRegistrar(w.reg).Build(name)
	conn.PlugIn(a)
	conn.PlugIn(b)
	w.peer[a] = b
	w.peer[b] = a
}

// ---- event-driven source: sends message i at (or after) a symbolic instant ----

type c09Source struct {
	w      *c09World
	c      *c09ED
	out    messaging.Port
	dst    messaging.RemotePort
	sendAt []timing.VTimeInPicoSec
	next   int
}

func (s *c09Source) Process(c *c09ED, now timing.VTimeInPicoSec) bool {
	for s.next < len(s.sendAt) && now >= s.sendAt[s.next] && s.out.CanSend() {
		m := &c09Msg{seq: s.w.sent}
		m.Src, m.Dst = s.out.AsRemote(), s.dst
		s.out.Send(m)
		s.w.sent++
		s.next++
	}
	if s.next < len(s.sendAt) && now < s.sendAt[s.next] {
		c.ScheduleWakeAt(s.sendAt[s.next])
	}
	// if the port is full the port-free notification wakes us
	return true
}

// ---- event-driven relay: forwards In -> Out ----

type c09Relay struct {
	w       *c09World
	in, out messaging.Port
	dst     messaging.RemotePort
}

func (r *c09Relay) Process(c *c09ED, now timing.VTimeInPicoSec) bool {
	for r.in.PeekIncoming() != nil && r.out.CanSend() {
		m := r.in.RetrieveIncoming().(*c09Msg)
		f := &c09Msg{seq: m.seq}
		f.Src, f.Dst = r.out.AsRemote(), r.dst
		r.out.Send(f)
	}
	return true
}

// ---- event-driven sink: message k may be taken no earlier than a symbolic instant ----

type c09Sink struct {
	w       *c09World
	in      messaging.Port
	readyAt []timing.VTimeInPicoSec
}

func (s *c09Sink) Process(c *c09ED, now timing.VTimeInPicoSec) bool {
	for s.in.PeekIncoming() != nil {
		k := len(s.w.recvd)
		if k < len(s.readyAt) && now < s.readyAt[k] {
			c.ScheduleWakeAt(s.readyAt[k]) // stalled: come back when ready
			return true
		}
		m := s.in.RetrieveIncoming().(*c09Msg)
		s.w.recvd = append(s.w.recvd, m.seq)
	}
	return true
}

// ---- ticking variants ----

type c09TickSource struct {
	w    *c09World
	out  messaging.Port
	dst  messaging.RemotePort
	n    int
	next int
}

func (s *c09TickSource) Tick() bool {
	if s.next < s.n && s.out.CanSend() {
		m := &c09Msg{seq: s.w.sent}
		m.Src, m.Dst = s.out.AsRemote(), s.dst
		s.out.Send(m)
		s.w.sent++
		s.next++
		return true
	}
	return false
}

type c09TickSink struct {
	w      *c09World
	in     messaging.Port
	stalls int // remaining deliberate stall ticks (the sink is "busy": it reports progress)
}

func (s *c09TickSink) Tick() bool {
	if s.in.PeekIncoming() == nil {
		return false
	}
	if s.stalls > 0 && verifrt.Bool("stall") {
		s.stalls--
		return true
	}
	m := s.in.RetrieveIncoming().(*c09Msg)
	s.w.recvd = append(s.w.recvd, m.seq)
	return true
}

func c09Times(name string, n int) []timing.VTimeInPicoSec {
	ts := make([]timing.VTimeInPicoSec, n)
	var prev uint64
	for i := range ts {
		// instants on or off the connection's 1 ns clock edges, non-decreasing
		prev = prev + verifrt.Uint64Range(name, 0, 4000)
		ts[i] = timing.VTimeInPicoSec(prev)
	}
	return ts
}

func c09ED_(w *c09World, name string, p modeling.EventProcessor[c09Spec, c09State, c09Res]) *c09ED {
	return modeling.NewEventDrivenBuilder[c09Spec, c09State, c09Res]().WithEngine(w.engine).WithProcessor(p).Build(name)
}

// the property, literally, once Run has returned
func (w *c09World) checkQuiescent(drained []messaging.Port) {
	verifrt.Assert(w.engine.Run() == nil, "run")
	for _, p := range w.ports {
		if p.PeekOutgoing() != nil {
			verifrt.Assert(!w.peer[p].CanDeliver(), "no-deliverable-message-left-in-an-outgoing-buffer")
			verifrt.Cover("blocked-at-end")
		}
	}
	for _, p := range drained {
		verifrt.Assert(p.NumIncoming() == 0, "no-unread-message-at-a-draining-component")
	}
	verifrt.Assert(len(w.recvd) == w.sent, "everything-sent-was-received")
	for i, s := range w.recvd {
		verifrt.Assert(s == i, "received-in-order-exactly-once")
	}
}

// VerifC09_Relay: ED source -> conn1 -> ED relay -> conn2 -> ED sink that stalls.
func VerifC09_Relay() {
	w := c09NewWorld()
	n := verifrt.Bound("messages", 2, 3)
	src := &c09Source{w: w, sendAt: c09Times("send-dt", n), dst: "Relay.In"}
	rel := &c09Relay{w: w, dst: "Sink.In"}
	snk := &c09Sink{w: w, readyAt: c09Times("ready-dt", n)}
	srcC := c09ED_(w, "Src", src)
	relC := c09ED_(w, "Relay", rel)
	snkC := c09ED_(w, "Sink", snk)
	src.c = srcC
	capOf := func(name string) int { return 1 + verifrt.Choice(name, 2) }
	// both directions of every port get an arbitrary capacity (the unused
	// direction must not influence the notifications of the used one)
	src.out = w.port(srcC, "Src.Out", 1, capOf("src-out-cap"))
	rel.in = w.port(relC, "Relay.In", capOf("relay-in-cap"), 1)
	rel.out = w.port(relC, "Relay.Out", 1, capOf("relay-out-cap"))
	snk.in = w.port(snkC, "Sink.In", capOf("sink-in-cap"), []int{1, 3}[verifrt.Choice("sink-out-cap", 2)])
	w.connect("Conn1", src.out, rel.in)
	w.connect("Conn2", rel.out, snk.in)
	srcC.ScheduleWakeAt(src.sendAt[0])
	w.checkQuiescent([]messaging.Port{rel.in, snk.in})
	verifrt.Assert(w.sent == n, "source-sent-everything")
	verifrt.Cover("end")
}

// VerifC09_Ticking: ticking source -> conn -> ticking sink that is busy for a
// symbolic number of ticks.
func VerifC09_Ticking() {
	w := c09NewWorld()
	n := 2 // (3 messages with all nine frequency pairs did not finish in 25 minutes: reduced bound)
	src := &c09TickSource{w: w, n: n, dst: "Sink.In"}
	snk := &c09TickSink{w: w, stalls: 2}
	freqs := []timing.Freq{1 * timing.GHz, 2 * timing.GHz, 700 * timing.MHz}
	// quick tier: the pairs (1 GHz, 1 GHz), (1 GHz, 700 MHz), (2 GHz, 1 GHz), (700 MHz, 2 GHz); thorough: all nine
	var sf, kf int
	if verifrt.Thorough() {
		sf, kf = verifrt.Choice("src-freq", 3), verifrt.Choice("sink-freq", 3)
	} else {
		pair := [][2]int{{0, 0}, {0, 2}, {1, 0}, {2, 1}}[verifrt.Choice("freq-pair", 4)]
		sf, kf = pair[0], pair[1]
	}
	srcC := modeling.NewTickingComponent("Src", w.engine, freqs[sf], src)
	snkC := modeling.NewTickingComponent("Sink", w.engine, freqs[kf], snk)
	src.out = w.port(srcC, "Src.Out", 1, 1+verifrt.Choice("src-out-cap", 2))
	snk.in = w.port(snkC, "Sink.In", 1+verifrt.Choice("sink-in-cap", 2), []int{1, 3}[verifrt.Choice("sink-out-cap", 2)])
	w.connect("Conn", src.out, snk.in)
	w.engine.SetCurrentTime(timing.VTimeInPicoSec(verifrt.Uint64Range("t0", 0, 4000)))
	srcC.TickNow()
	w.checkQuiescent([]messaging.Port{snk.in})
	verifrt.Assert(w.sent == n, "source-sent-everything")
	verifrt.Cover("end")
}

// VerifC09_PingPong: two event-driven peers on one connection; B answers every
// request in the instant it receives it (a same-instant chain through the
// connection), A sends request i+1 when it has the answer to request i.
type c09Peer struct {
	w       *c09World
	c       *c09ED
	p       messaging.Port
	other   messaging.RemotePort
	isA     bool
	toSend  int
	pending []*c09Msg // answers waiting for room in the outgoing buffer
}

func (q *c09Peer) Process(c *c09ED, now timing.VTimeInPicoSec) bool {
	for q.p.PeekIncoming() != nil && (q.isA || len(q.pending) < 2) {
		m := q.p.RetrieveIncoming().(*c09Msg)
		if q.isA {
			q.w.recvd = append(q.w.recvd, m.seq)
		} else {
			a := &c09Msg{seq: m.seq}
			a.Src, a.Dst = q.p.AsRemote(), q.other
			q.pending = append(q.pending, a)
		}
	}
	for len(q.pending) > 0 && q.p.CanSend() {
		q.p.Send(q.pending[0])
		q.pending = q.pending[1:]
	}
	for q.isA && q.toSend > 0 && q.p.CanSend() {
		m := &c09Msg{seq: q.w.sent}
		m.Src, m.Dst = q.p.AsRemote(), q.other
		q.p.Send(m)
		q.w.sent++
		q.toSend--
	}
	return true
}

func VerifC09_PingPong() {
	w := c09NewWorld()
	n := verifrt.Bound("messages", 2, 3)
	a := &c09Peer{w: w, isA: true, toSend: n, other: "B.Port"}
	b := &c09Peer{w: w, other: "A.Port"}
	aC := c09ED_(w, "A", a)
	bC := c09ED_(w, "B", b)
	a.c, b.c = aC, bC
	a.p = w.port(aC, "A.Port", 1+verifrt.Choice("a-in-cap", 2), 1+verifrt.Choice("a-out-cap", 2))
	b.p = w.port(bC, "B.Port", 1+verifrt.Choice("b-in-cap", 2), 1+verifrt.Choice("b-out-cap", 2))
	w.connect("Conn", a.p, b.p)
	aC.ScheduleWakeAt(timing.VTimeInPicoSec(verifrt.Uint64Range("t0", 0, 4000)))
	w.checkQuiescent([]messaging.Port{a.p, b.p})
	verifrt.Assert(len(b.pending) == 0 && w.sent == n, "all-requests-sent-and-answered")
	verifrt.Cover("end")
}
