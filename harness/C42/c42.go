package timing

// C42 — clock arithmetic is exact. Kernel harnesses over the real Freq
// methods; int encoding (Go uint64 as mathematical integers with explicit
// wrap), frequency and time fully symbolic over 64 bits.
//
// The oracles avoid a second division: for period p > 0,
//   r is the smallest multiple of p not before n  <=>  r >= n && r-n < p && r % p == 0
// and "the result fits in 64 bits" is stated on the mathematical value.

import "github.com/sarchlab/akita/v5/internal/verifrt"

const c42MaxFreq = 1_000_000_000_000 // 1 THz

func c42Freq() (Freq, uint64) {
	f := verifrt.Uint64Range("freq", 1, c42MaxFreq)
	p := psPerSecond / f // the period as the code defines it
	return Freq(f), p
}

// VerifC42_Period: Period() is ⌊10^12/f⌋ and is ≥ 1 for every legal frequency.
func VerifC42_Period() {
	f, p := c42Freq()
	got := uint64(f.Period())
	verifrt.Assert(got == p, "period-def")
	verifrt.Assert(got >= 1, "period-positive")
	verifrt.Assert(got*uint64(f) <= psPerSecond, "period-floor-lo")
	verifrt.Assert((got+1)*uint64(f) > psPerSecond, "period-floor-hi")
	verifrt.Cover("end")
}

// VerifC42_ThisTick: smallest multiple of the period not before now,
// whenever that multiple fits in 64 bits.
func VerifC42_ThisTick() {
	f, p := c42Freq()
	now := verifrt.Uint64("now")
	// precondition "the result fits in 64 bits": ∃ k: k*p >= now within uint64.
	// Expressed without division: the largest multiple of p in uint64 is ≥ now.
	k := verifrt.Uint64("k") // witness: index of the true tick
	verifrt.Assume(k <= (^uint64(0))/p)
	tick := k * p // no wrap by the assumption above
	verifrt.Assume(tick >= now)
	verifrt.Assume(tick-now < p)
	// tick is now the mathematical answer (smallest multiple of p that is >= now)
	got := uint64(f.ThisTick(VTimeInPicoSec(now)))
	verifrt.Observe("got", got)
	verifrt.Assert(got == tick, "thistick-exact")
	verifrt.Cover("end")
}

// VerifC42_NextTick: smallest multiple strictly after now, when it fits.
func VerifC42_NextTick() {
	f, p := c42Freq()
	now := verifrt.Uint64("now")
	k := verifrt.Uint64("k")
	verifrt.Assume(k <= (^uint64(0))/p)
	tick := k * p
	verifrt.Assume(tick > now)
	verifrt.Assume(tick-now <= p)
	got := uint64(f.NextTick(VTimeInPicoSec(now)))
	verifrt.Observe("got", got)
	verifrt.Assert(got == tick, "nexttick-exact")
	verifrt.Cover("end")
}

// VerifC42_NCyclesLater: current tick plus n periods, when it fits.
func VerifC42_NCyclesLater() {
	f, p := c42Freq()
	now := verifrt.Uint64("now")
	n := verifrt.IntRange("n", 0, 1<<31-1)
	k := verifrt.Uint64("k")
	verifrt.Assume(k <= (^uint64(0))/p)
	verifrt.Assume(k+uint64(n) >= k)
	verifrt.Assume(k+uint64(n) <= (^uint64(0))/p)
	tick := k * p
	verifrt.Assume(tick >= now)
	verifrt.Assume(tick-now < p)
	want := (k + uint64(n)) * p
	got := uint64(f.NCyclesLater(n, VTimeInPicoSec(now)))
	verifrt.Observe("got", got)
	verifrt.Assert(got == want, "ncycles-exact")
	verifrt.Cover("end")
}

// VerifC42_NoEarlierThan: same contract as ThisTick.
func VerifC42_NoEarlierThan() {
	f, p := c42Freq()
	now := verifrt.Uint64("now")
	k := verifrt.Uint64("k")
	verifrt.Assume(k <= (^uint64(0))/p)
	tick := k * p
	verifrt.Assume(tick >= now)
	verifrt.Assume(tick-now < p)
	got := uint64(f.NoEarlierThan(VTimeInPicoSec(now)))
	verifrt.Assert(got == tick, "noearlier-exact")
	verifrt.Cover("end")
}

// VerifC42_Cycle: number of whole periods elapsed.
func VerifC42_Cycle() {
	f, p := c42Freq()
	t := verifrt.Uint64("t")
	c := f.Cycle(VTimeInPicoSec(t))
	verifrt.Observe("cycle", c)
	// c*p <= t < (c+1)*p, evaluated without wrap: c <= t/p <= max/p
	verifrt.Assert(c <= (^uint64(0))/p, "cycle-nowrap")
	verifrt.Assert(c*p <= t, "cycle-lo")
	verifrt.Assert(t-c*p < p, "cycle-hi")
	verifrt.Cover("end")
}
