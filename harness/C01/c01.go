package timing

// C01 — the serial engine dispatches every event once, in time/phase/FIFO order.

import "github.com/sarchlab/akita/v5/internal/verifrt"

func c01Less(a, b queuedEvent) bool {
	return verifrt.Or(a.event.Time() < b.event.Time(),
		verifrt.And(a.event.Time() == b.event.Time(), a.seq < b.seq))
}

// c01Heap draws an arbitrary valid event heap of n entries: binary-heap order
// under (time, seq), sequence numbers pairwise distinct and below nextSeq.
func c01Heap(n int) *unsafeEventQueue {
	q := newUnsafeEventQueue()
	q.nextSeq = verifrt.Uint64Range("nextSeq", 0, 1<<62)
	for i := 0; i < n; i++ {
		t := VTimeInPicoSec(verifrt.Uint64("t"))
		s := verifrt.Uint64("seq")
		verifrt.Assume(s < q.nextSeq)
		for _, o := range q.events {
			verifrt.Assume(o.seq != s)
		}
		q.events = append(q.events, queuedEvent{event: vpEvt{id: i, t: t}, seq: s})
		if i > 0 {
			verifrt.Assume(verifrt.Not(c01Less(q.events[i], q.events[(i-1)/2])))
		}
	}
	return q
}

func c01HeapInv(q *unsafeEventQueue, tag string) {
	for i := 1; i < len(q.events); i++ {
		verifrt.Assert(verifrt.Not(c01Less(q.events[i], q.events[(i-1)/2])), tag+"-heap-order")
	}
	for i := range q.events {
		verifrt.Assert(q.events[i].seq < q.nextSeq, tag+"-seq-below-next")
		verifrt.Assert(q.events[i].event != nil, tag+"-event-present")
	}
}

// VerifC01_HeapStep: one Push or Pop from an arbitrary valid heap.
func VerifC01_HeapStep() {
	maxN := verifrt.Bound("heap", 5, 7)
	n := verifrt.Choice("n", maxN+1)
	q := c01Heap(n)
	before := append(eventHeap(nil), q.events...)
	seq0 := q.nextSeq
	if verifrt.Choice("op", 2) == 0 {
		t := VTimeInPicoSec(verifrt.Uint64("newt"))
		q.Push(vpEvt{id: 100, t: t})
		c01HeapInv(q, "push")
		verifrt.Assert(q.nextSeq == seq0+1, "push-nextseq-increments")
		verifrt.Assert(q.Len() == n+1, "push-len")
		// multiset: every old entry still present once, plus the new one with seq0
		newSeen := 0
		for _, e := range q.events {
			if e.event.(vpEvt).id == 100 {
				newSeen++
				verifrt.Assert(e.seq == seq0 && e.event.Time() == t, "push-new-entry-intact")
			}
		}
		verifrt.Assert(newSeen == 1, "push-new-entry-once")
		for _, b := range before {
			cnt := 0
			for _, e := range q.events {
				if e.event.(vpEvt).id == b.event.(vpEvt).id {
					cnt++
					verifrt.Assert(e.seq == b.seq && e.event.Time() == b.event.Time(), "push-old-entry-intact")
				}
			}
			verifrt.Assert(cnt == 1, "push-old-entry-once")
		}
		verifrt.Cover("pushed")
	} else {
		if n == 0 {
			verifrt.Cover("end")
			return
		}
		got := q.Pop().(vpEvt)
		c01HeapInv(q, "pop")
		verifrt.Assert(q.Len() == n-1, "pop-len")
		verifrt.Assert(q.nextSeq == seq0, "pop-nextseq-unchanged")
		var gotEntry queuedEvent
		for _, b := range before {
			if b.event.(vpEvt).id == got.id {
				gotEntry = b
			}
		}
		for _, b := range before {
			if b.event.(vpEvt).id == got.id {
				continue
			}
			verifrt.Assert(c01Less(gotEntry, b), "pop-returns-the-minimum")
			cnt := 0
			for _, e := range q.events {
				if e.event.(vpEvt).id == b.event.(vpEvt).id {
					cnt++
					verifrt.Assert(e.seq == b.seq && e.event.Time() == b.event.Time(), "pop-old-entry-intact")
				}
			}
			verifrt.Assert(cnt == 1, "pop-others-stay-once")
		}
		verifrt.Cover("popped")
	}
	verifrt.Cover("end")
}

// VerifC01_Engine: bounded handler programs on the real SerialEngine.
func VerifC01_Engine() {
	k := verifrt.Bound("events", 4, 5)
	p := vpDraw(k)
	r := vpNewRun(p, true)
	var hook *vpHook
	if verifrt.Choice("hooked", 2) == 1 {
		hook = &vpHook{}
		r.e.AcceptHook(hook)
	}
	r.start()
	err := r.e.Run()
	verifrt.Assert(err == nil, "run-returns-nil")
	verifrt.Assert(r.allHandled(), "every-scheduled-event-handled")
	verifrt.Assert(len(r.handled) == p.n, "exactly-once")
	verifrt.Assert(r.e.queue.Len() == 0 && r.e.secondaryQueue.Len() == 0, "run-returns-with-empty-queues")
	if hook != nil {
		verifrt.Assert(hook.before == p.n && hook.after == p.n, "hooks-fire-once-per-event")
		verifrt.Cover("hooked")
	}
	for i, id := range r.handled {
		verifrt.Observe("handled", id)
		_ = i
	}
	if p.n >= 3 {
		verifrt.Cover("three-events")
	}
	verifrt.Cover("end")
}

// VerifC01_Past: scheduling before the current time is refused.
func VerifC01_Past() {
	e := NewSerialEngine()
	now := VTimeInPicoSec(verifrt.Uint64("now"))
	e.SetCurrentTime(now)
	t := VTimeInPicoSec(verifrt.Uint64("t"))
	sec := verifrt.Choice("secondary", 2) == 1
	panicked := verifrt.ExpectPanic(func() { e.Schedule(vpEvt{id: 0, t: t, sec: sec}) })
	verifrt.Assert(panicked == (t < now), "schedule-into-the-past-panics")
	if !panicked {
		verifrt.Assert(e.queue.Len()+e.secondaryQueue.Len() == 1, "scheduled-once")
		verifrt.Assert((e.secondaryQueue.Len() == 1) == sec, "queued-by-class")
		verifrt.Cover("accepted")
	} else {
		verifrt.Assert(e.queue.Len()+e.secondaryQueue.Len() == 0, "refused-event-not-queued")
		verifrt.Cover("refused")
	}
	verifrt.Cover("end")
}
