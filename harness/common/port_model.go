package messaging

// Shared harness machinery for port-level properties (C11, C32, C33): stub
// owner/connection that count notifications, symbolic messages, and a
// reference model of a port as two bounded FIFO lists.

import (
	"github.com/sarchlab/akita/v5/hooking"
	"github.com/sarchlab/akita/v5/internal/verifrt"
)

type vpMsg struct {
	MsgMeta
	tag int
}

func (m *vpMsg) Meta() MsgMeta { return m.MsgMeta }

type vpComp struct {
	hooking.HookableBase
	recv, free int
	lastPort   Port
}

func (c *vpComp) Name() string                            { return "Owner" }
func (c *vpComp) DeclarePort(name string, roles ...*Role) {}
func (c *vpComp) AssignPort(name string, port Port)       {}
func (c *vpComp) GetPortByName(name string) Port          { return nil }
func (c *vpComp) Ports() []Port                           { return nil }
func (c *vpComp) NotifyRecv(port Port)                    { c.recv++; c.lastPort = port }
func (c *vpComp) NotifyPortFree(port Port)                { c.free++; c.lastPort = port }

type vpConn struct {
	hooking.HookableBase
	avail, send int
	lastPort    Port
}

func (c *vpConn) Name() string              { return "Conn" }
func (c *vpConn) PlugIn(port Port)          {}
func (c *vpConn) Unplug(port Port)          {}
func (c *vpConn) NotifyAvailable(port Port) { c.avail++; c.lastPort = port }
func (c *vpConn) NotifySend()               { c.send++ }

type vpPortModel struct {
	p        *defaultPort
	comp     *vpComp
	conn     *vpConn
	inCap    int
	outCap   int
	in, out  []*vpMsg
	nextTag  int
	// poisoned: an invalid Send panicked. The real Send panics with the port
	// mutex held; the property says nothing about ports after a refused invalid
	// message, so the harness stops using the port (see DESIGN.md, C11 notes).
	poisoned bool
}

func vpNewPortModel(inCap, outCap int) *vpPortModel {
	m := &vpPortModel{comp: &vpComp{}, conn: &vpConn{}, inCap: inCap, outCap: outCap}
	m.p = NewPort(m.comp, inCap, outCap, "Owner.Port").(*defaultPort)
	m.p.SetConnection(m.conn)
	return m
}

func (m *vpPortModel) newMsg(outgoing bool) *vpMsg {
	m.nextTag++
	msg := &vpMsg{tag: m.nextTag}
	msg.ID = verifrt.Uint64("msgid")
	msg.TrafficBytes = verifrt.IntRange("bytes", 0, 1<<20)
	if outgoing {
		msg.Src, msg.Dst = "Owner.Port", "Peer.Port"
	} else {
		msg.Src, msg.Dst = "Peer.Port", "Owner.Port"
	}
	return msg
}

// fill puts nIn / nOut messages directly into the buffers (arbitrary valid pre-state).
func (m *vpPortModel) fill(nIn, nOut int) {
	for i := 0; i < nIn; i++ {
		msg := m.newMsg(false)
		m.p.incomingBuf.Restore(append(m.p.incomingBuf.Elements(), Msg(msg)))
		m.in = append(m.in, msg)
	}
	for i := 0; i < nOut; i++ {
		msg := m.newMsg(true)
		m.p.outgoingBuf.Restore(append(m.p.outgoingBuf.Elements(), Msg(msg)))
		m.out = append(m.out, msg)
	}
}

func vpSameMsg(got Msg, want *vpMsg) bool {
	g, ok := got.(*vpMsg)
	return ok && g == want
}

// check compares the port with the reference lists.
func (m *vpPortModel) check(tag string) {
	if m.poisoned {
		return
	}
	p := m.p
	verifrt.Assert(p.NumIncoming() == len(m.in), tag+"-num-incoming")
	verifrt.Assert(p.NumOutgoing() == len(m.out), tag+"-num-outgoing")
	verifrt.Assert(p.NumIncoming() <= m.inCap && p.NumOutgoing() <= m.outCap, tag+"-bounded")
	verifrt.Assert(p.CanDeliver() == (len(m.in) < m.inCap), tag+"-candeliver")
	verifrt.Assert(p.CanSend() == (len(m.out) < m.outCap), tag+"-cansend")
	if len(m.in) > 0 {
		verifrt.Assert(vpSameMsg(p.PeekIncoming(), m.in[0]), tag+"-peek-incoming")
	} else {
		verifrt.Assert(p.PeekIncoming() == nil, tag+"-peek-incoming-empty")
	}
	if len(m.out) > 0 {
		verifrt.Assert(vpSameMsg(p.PeekOutgoing(), m.out[0]), tag+"-peek-outgoing")
	} else {
		verifrt.Assert(p.PeekOutgoing() == nil, tag+"-peek-outgoing-empty")
	}
	ins := p.incomingBuf.Elements()
	for i := range m.in {
		if i < len(ins) {
			verifrt.Assert(vpSameMsg(ins[i], m.in[i]), tag+"-incoming-fifo-content")
		}
	}
	outs := p.outgoingBuf.Elements()
	for i := range m.out {
		if i < len(outs) {
			verifrt.Assert(vpSameMsg(outs[i], m.out[i]), tag+"-outgoing-fifo-content")
		}
	}
}

// op performs one arbitrary port operation on port and model, asserting the
// FIFO, capacity and edge-notification rules.
func (m *vpPortModel) op(tag string) {
	if m.poisoned {
		return
	}
	p := m.p
	r0, f0, a0, s0 := m.comp.recv, m.comp.free, m.conn.avail, m.conn.send
	switch verifrt.Choice("op", 6) {
	case 0: // Send
		msg := m.newMsg(true)
		if len(m.out) < m.outCap {
			wasEmpty := len(m.out) == 0
			p.Send(msg)
			m.out = append(m.out, msg)
			if wasEmpty {
				verifrt.Assert(m.conn.send > s0, tag+"-send-edge-notifies-connection")
				verifrt.Cover("send-edge")
			}
			verifrt.Cover("sent")
		} else {
			verifrt.Assert(verifrt.ExpectPanic(func() { p.Send(msg) }), tag+"-send-on-full-panics")
			verifrt.Cover("send-refused")
		}
	case 1: // Deliver
		msg := m.newMsg(false)
		if len(m.in) < m.inCap {
			wasEmpty := len(m.in) == 0
			p.Deliver(msg)
			m.in = append(m.in, msg)
			if wasEmpty {
				verifrt.Assert(m.comp.recv > r0, tag+"-deliver-edge-notifies-owner")
				verifrt.Assert(m.comp.lastPort == Port(p), tag+"-deliver-edge-names-port")
				verifrt.Cover("deliver-edge")
			}
			verifrt.Cover("delivered")
		} else {
			verifrt.Assert(verifrt.ExpectPanic(func() { p.Deliver(msg) }), tag+"-deliver-on-full-panics")
			verifrt.Cover("deliver-refused")
		}
	case 2: // RetrieveIncoming
		got := p.RetrieveIncoming()
		if len(m.in) > 0 {
			wasFull := len(m.in) == m.inCap
			verifrt.Assert(vpSameMsg(got, m.in[0]), tag+"-retrieve-incoming-front")
			m.in = m.in[1:]
			if wasFull {
				verifrt.Assert(m.conn.avail > a0, tag+"-incoming-freed-edge-notifies-connection")
				verifrt.Assert(m.conn.lastPort == Port(p), tag+"-incoming-freed-edge-names-port")
				verifrt.Cover("incoming-freed-edge")
			}
			verifrt.Cover("retrieved-incoming")
		} else {
			verifrt.Assert(got == nil, tag+"-retrieve-incoming-empty-nil")
		}
	case 3: // RetrieveOutgoing
		got := p.RetrieveOutgoing()
		if len(m.out) > 0 {
			wasFull := len(m.out) == m.outCap
			verifrt.Assert(vpSameMsg(got, m.out[0]), tag+"-retrieve-outgoing-front")
			m.out = m.out[1:]
			if wasFull {
				verifrt.Assert(m.comp.free > f0, tag+"-outgoing-freed-edge-notifies-owner")
				verifrt.Cover("outgoing-freed-edge")
			}
			verifrt.Cover("retrieved-outgoing")
		} else {
			verifrt.Assert(got == nil, tag+"-retrieve-outgoing-empty-nil")
		}
	case 4: // invalid sends are refused and leave the port usable
		msg := m.newMsg(true)
		switch verifrt.Choice("badkind", 3) {
		case 0:
			msg.Src = "Someone.Else"
		case 1:
			msg.Dst = ""
		case 2:
			msg.Dst = msg.Src
		}
		verifrt.Assert(verifrt.ExpectPanic(func() { p.Send(msg) }), tag+"-invalid-send-panics")
		m.poisoned = true
		verifrt.Cover("invalid-send")
	case 5: // observers are pure
		p.CanSend()
		p.CanDeliver()
		p.PeekIncoming()
		p.PeekOutgoing()
		verifrt.Assert(m.comp.recv == r0 && m.comp.free == f0 && m.conn.avail == a0 && m.conn.send == s0, tag+"-observers-do-not-notify")
	}
}
