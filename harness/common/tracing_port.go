package tracing

// Shared harness machinery for C32/C33: a traced owner component with one
// real port, a recording tracer, and a component-side script that receives
// and completes (or resets) requests.

import (
	"github.com/sarchlab/akita/v5/hooking"
	"github.com/sarchlab/akita/v5/internal/verifrt"
	"github.com/sarchlab/akita/v5/messaging"
	"github.com/sarchlab/akita/v5/timing"
)

type tpMsg struct {
	messaging.MsgMeta
}

func (m *tpMsg) Meta() messaging.MsgMeta { return m.MsgMeta }

type tpOwner struct {
	hooking.HookableBase
	now        timing.VTimeInPicoSec
	clockReads int
	recv, free int
}

func (c *tpOwner) Name() string                                        { return "Owner" }
func (c *tpOwner) CurrentTime() timing.VTimeInPicoSec                  { c.clockReads++; return c.now }
func (c *tpOwner) DeclarePort(name string, roles ...*messaging.Role) {}
func (c *tpOwner) AssignPort(name string, port messaging.Port)       {}
func (c *tpOwner) GetPortByName(name string) messaging.Port          { return nil }
func (c *tpOwner) Ports() []messaging.Port                           { return nil }
func (c *tpOwner) NotifyRecv(port messaging.Port)                    { c.recv++ }
func (c *tpOwner) NotifyPortFree(port messaging.Port)                { c.free++ }

type tpConn struct {
	hooking.HookableBase
	avail, send int
}

func (c *tpConn) Name() string                        { return "Conn" }
func (c *tpConn) PlugIn(port messaging.Port)          {}
func (c *tpConn) Unplug(port messaging.Port)          {}
func (c *tpConn) NotifyAvailable(port messaging.Port) { c.avail++ }
func (c *tpConn) NotifySend()                         { c.send++ }

type tpEvent struct {
	kind     int // 0 start, 1 end, 2 tag, 3 milestone
	id       uint64
	taskKind string
	location string
	time     timing.VTimeInPicoSec
}

type tpTracer struct{ events []tpEvent }

func (t *tpTracer) StartTask(s TaskStart) {
	t.events = append(t.events, tpEvent{kind: 0, id: s.ID, taskKind: s.Kind, location: s.Location, time: s.Time})
}
func (t *tpTracer) EndTask(e TaskEnd) { t.events = append(t.events, tpEvent{kind: 1, id: e.ID, time: e.Time}) }
func (t *tpTracer) AddTaskTag(g TaskTag) {
	t.events = append(t.events, tpEvent{kind: 2, id: g.TaskID, time: g.Time})
}
func (t *tpTracer) AddMilestone(m Milestone) {
	t.events = append(t.events, tpEvent{kind: 3, id: m.TaskID, time: m.Time})
}

type tpWorld struct {
	owner    *tpOwner
	conn     *tpConn
	port     messaging.Port
	tracer   *tpTracer
	in, out  []*tpMsg // reference content of the two buffers
	received []*tpMsg // requests retrieved and announced with TraceReqReceive, not yet completed
	inCap    int
	outCap   int
	results  []uint64 // what the operations returned (message ids), for the relational comparison
}

func tpNew(inCap, outCap int, traced bool) *tpWorld {
	w := &tpWorld{owner: &tpOwner{}, conn: &tpConn{}, inCap: inCap, outCap: outCap}
	w.port = messaging.NewPort(w.owner, inCap, outCap, "Owner.Port")
	w.port.SetConnection(w.conn)
	if traced {
		w.tracer = &tpTracer{}
		CollectTrace(w.owner, w.tracer)
		CollectIncomingBufferTrace(w.port)
		CollectOutgoingBufferTrace(w.port)
	}
	return w
}

// step applies operation op (already drawn, so that two worlds can replay the
// same history) at time now.
func (w *tpWorld) step(op int, id uint64, now timing.VTimeInPicoSec) {
	w.owner.now = now
	switch op {
	case 0: // a request is delivered to the port
		if len(w.in) < w.inCap {
			m := &tpMsg{}
			m.ID, m.Src, m.Dst = id, "Peer.Port", "Owner.Port"
			w.port.Deliver(m)
			w.in = append(w.in, m)
		}
	case 1: // the component retrieves a request and starts serving it
		if len(w.in) > 0 {
			m := w.port.RetrieveIncoming()
			w.results = append(w.results, m.Meta().ID)
			w.in = w.in[1:]
			TraceReqReceive(w.owner, m)
			w.received = append(w.received, m.(*tpMsg))
		}
	case 2: // the component completes the oldest request it is serving
		if len(w.received) > 0 {
			m := w.received[0]
			w.received = w.received[1:]
			AddTaskTag(w.owner, TaskTag{TaskID: MsgIDAtReceiver(m, w.owner), What: "done"})
			TraceReqComplete(w.owner, m)
		}
	case 3: // a reset ends the newest request being served
		if n := len(w.received); n > 0 {
			m := w.received[n-1]
			w.received = w.received[:n-1]
			EndReqInOnReset(w.owner, m.ID)
		}
	case 4: // the component sends a message
		if len(w.out) < w.outCap {
			m := &tpMsg{}
			m.ID, m.Src, m.Dst = id, "Owner.Port", "Peer.Port"
			TraceReqInitiate(w.owner, m, 0)
			w.port.Send(m)
			w.out = append(w.out, m)
		}
	case 5: // the connection takes a message away; the request is finalised
		if len(w.out) > 0 {
			m := w.port.RetrieveOutgoing()
			w.results = append(w.results, m.Meta().ID)
			w.out = w.out[1:]
			TraceReqFinalize(w.owner, m)
		}
	}
}

// quiesce drains both buffers and completes everything being served.
func (w *tpWorld) quiesce(now timing.VTimeInPicoSec) {
	for len(w.in) > 0 {
		w.step(1, 0, now)
	}
	for len(w.received) > 0 {
		w.step(2, 0, now)
	}
	for len(w.out) > 0 {
		w.step(5, 0, now)
	}
}

func tpDrawHistory(k int) (ops []int, ids []uint64, dts []uint64) {
	for i := 0; i < k; i++ {
		ops = append(ops, verifrt.Choice("op", 6))
		ids = append(ids, timing.GetIDGenerator().Generate())
		dts = append(dts, verifrt.Uint64Range("dt", 0, 1<<30))
	}
	return
}
