package timing

// Shared harness machinery for the engine-level properties (C01, C02, C05,
// C06, C33): a "handler program" is a static forest of events — roots with
// symbolic absolute times, children scheduled by the handler of their parent
// with a symbolic non-negative delay (0 = same instant) and a symbolic class
// (primary/secondary). The forest shape is drawn by forking; all times are
// solver variables, so one path covers every ordering and tie of its events
// that is consistent with the decisions the real heap code took.

import (
	"github.com/sarchlab/akita/v5/hooking"
	"github.com/sarchlab/akita/v5/internal/verifrt"
)

type vpEvt struct {
	id  int
	t   VTimeInPicoSec
	sec bool
}

func (e vpEvt) Time() VTimeInPicoSec { return e.t }
func (e vpEvt) HandlerID() string    { return "vp" }
func (e vpEvt) IsSecondary() bool    { return e.sec }

type vpProg struct {
	n        int   // number of events
	roots    int   // events 0..roots-1 are scheduled before Run
	children [][]int
	time     []VTimeInPicoSec
	sec      []bool
}

// vpDraw draws a program with at most maxEvents events.
func vpDraw(maxEvents int) *vpProg {
	p := &vpProg{}
	p.roots = 1 + verifrt.Choice("roots", maxEvents)
	p.n = p.roots
	for i := 0; i < p.roots; i++ {
		p.time = append(p.time, VTimeInPicoSec(verifrt.Uint64Range("t", 0, 1<<40)))
		p.sec = append(p.sec, verifrt.Choice("secondary", 2) == 1)
		p.children = append(p.children, nil)
	}
	for i := 0; i < p.n; i++ {
		room := maxEvents - p.n
		if room > 2 {
			room = 2
		}
		c := 0
		if room > 0 {
			c = verifrt.Choice("spawn", room+1)
		}
		for j := 0; j < c; j++ {
			d := verifrt.Uint64Range("delay", 0, 1<<20)
			p.time = append(p.time, p.time[i]+VTimeInPicoSec(d))
			p.sec = append(p.sec, verifrt.Choice("secondary", 2) == 1)
			p.children = append(p.children, nil)
			p.children[i] = append(p.children[i], p.n)
			p.n++
		}
	}
	return p
}

// vpRun is one execution of a program on one engine, with its ghost state.
type vpRun struct {
	p        *vpProg
	e        *SerialEngine
	schedSeq []int // schedule order per event, -1 = not scheduled
	nextSeq  int
	handled  []int // ids in handling order
	done     []bool
	inHandler bool
	check    bool // assert the C01 ordering rules at every dispatch
	yieldInHandler bool // offer a scheduling point in the middle of every handler (concurrency harnesses)
}

func vpNewRun(p *vpProg, check bool) *vpRun {
	r := &vpRun{p: p, e: NewSerialEngine(), check: check}
	r.schedSeq = make([]int, p.n)
	r.done = make([]bool, p.n)
	for i := range r.schedSeq {
		r.schedSeq[i] = -1
	}
	r.e.RegisterHandler("vp", r)
	return r
}

func (r *vpRun) schedule(id int) {
	r.schedSeq[id] = r.nextSeq
	r.nextSeq++
	r.e.Schedule(vpEvt{id: id, t: r.p.time[id], sec: r.p.sec[id]})
}

func (r *vpRun) start() {
	for i := 0; i < r.p.roots; i++ {
		r.schedule(i)
	}
}

// Handle implements Handler.
func (r *vpRun) Handle(e Event) error {
	evt := e.(vpEvt)
	id := evt.id
	r.inHandler = true
	if r.check {
		verifrt.Assert(r.schedSeq[id] >= 0 && !r.done[id], "handled-once-and-only-if-scheduled")
		verifrt.Assert(r.e.CurrentTime() == r.p.time[id], "clock-equals-event-time")
		if len(r.handled) > 0 {
			last := r.handled[len(r.handled)-1]
			verifrt.Assert(r.p.time[last] <= r.p.time[id], "time-never-decreases")
		}
		for o := 0; o < r.p.n; o++ {
			if o == id || r.schedSeq[o] < 0 || r.done[o] {
				continue
			}
			// o is pending
			verifrt.Assert(r.p.time[o] >= r.p.time[id], "no-pending-event-is-earlier")
			if r.p.sec[id] && !r.p.sec[o] {
				verifrt.Assert(r.p.time[o] != r.p.time[id], "primary-before-secondary-at-one-instant")
			}
			if r.p.sec[id] == r.p.sec[o] && r.schedSeq[o] < r.schedSeq[id] {
				verifrt.Assert(r.p.time[o] != r.p.time[id], "same-time-same-class-in-schedule-order")
			}
		}
	}
	if r.yieldInHandler {
		verifrt.Yield()
	}
	r.done[id] = true
	r.handled = append(r.handled, id)
	for _, c := range r.p.children[id] {
		r.schedule(c)
	}
	r.inHandler = false
	return nil
}

func (r *vpRun) allHandled() bool {
	for i := 0; i < r.p.n; i++ {
		if !r.done[i] {
			return false
		}
	}
	return true
}

// vpHook counts engine hook invocations.
type vpHook struct {
	before, after int
	lastBefore    int
}

func (h *vpHook) Func(ctx hooking.HookCtx) {
	if ctx.Pos == HookPosBeforeEvent {
		h.before++
		h.lastBefore = ctx.Item.(vpEvt).id
	}
	if ctx.Pos == HookPosAfterEvent {
		h.after++
	}
}
