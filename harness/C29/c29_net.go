package networkconnector

// C29 (fragment: a small assembled network) — a sender device, one or two
// switches in a line and a receiver device whose two ports share one endpoint,
// built by the real connector (endpoints, switches, links, Floyd-Warshall
// routes) and run on the real serial engine. Messages with symbolic metadata
// and symbolic sizes (1..3 flits) go to either receiver port while the receiver
// drains one port late. Every message is delivered exactly once, to the port it
// names, with its metadata intact, and nothing stays in the network (delivery
// order is not part of the property: multi-lane pipelines may swap same-cycle flits).

import (
	"github.com/sarchlab/akita/v5/internal/verifrt"
	"github.com/sarchlab/akita/v5/messaging"
	"github.com/sarchlab/akita/v5/modeling"
	"github.com/sarchlab/akita/v5/timing"
)

type c29Recv struct {
	meta messaging.MsgMeta
	port int
}

type c29Device struct {
	*modeling.TickingComponent

	ports     []messaging.Port
	toSend    []messaging.MsgMeta
	received  []c29Recv
	ticks     int
	slowPort  int
	slowUntil int
	keepUntil int
}

func (d *c29Device) Tick() bool {
	d.ticks++
	progress := false
	if len(d.toSend) > 0 && d.ports[0].CanSend() {
		d.ports[0].Send(d.toSend[0])
		d.toSend = d.toSend[1:]
		progress = true
	}
	for i, p := range d.ports {
		if i == d.slowPort && d.ticks < d.slowUntil {
			continue
		}
		if m := p.RetrieveIncoming(); m != nil {
			d.received = append(d.received, c29Recv{m.Meta(), i})
			progress = true
		}
	}
	return progress || d.ticks < d.keepUntil
}

func c29NewDevice(engine timing.Engine, name string, nPorts int) *c29Device {
	d := &c29Device{slowPort: -1}
	d.TickingComponent = modeling.NewTickingComponent(name, engine, 1*timing.GHz, d)
	for i := 0; i < nPorts; i++ {
		d.ports = append(d.ports, messaging.NewPort(d, 1, 1, name+".P"+string(rune('0'+i))))
	}
	return d
}

func VerifC29_Net() {
	engine := timing.NewSerialEngine()
	sender := c29NewDevice(engine, "Sender", 1)
	receiver := c29NewDevice(engine, "Receiver", 2)
	receiver.slowPort = verifrt.Choice("slow-port", 3) - 1 // none, P0, P1
	receiver.slowUntil = 40
	sender.keepUntil, receiver.keepUntil = 60, 60

	connector := MakeConnector().WithEngine(engine).WithDefaultFreq(1 * timing.GHz).WithFlitSize(16)
	connector.NewNetwork("Net")
	ch := 1 + verifrt.Choice("channels", 2) // flits per cycle on the device links and in the switch pipelines
	devParam := DeviceToSwitchLinkParameter{
		DeviceEndParam: LinkEndDeviceParameter{IncomingBufSize: ch, OutgoingBufSize: ch, NumInputChannel: ch, NumOutputChannel: ch},
		SwitchEndParam: LinkEndSwitchParameter{IncomingBufSize: ch, OutgoingBufSize: ch, NumInputChannel: ch, NumOutputChannel: ch, Latency: 1},
		LinkParam:      LinkParameter{IsIdeal: true, Frequency: 1 * timing.GHz},
	}
	sw1 := connector.AddSwitch()
	last := sw1
	if verifrt.Choice("two-switches", 2) == 1 {
		sw2 := connector.AddSwitch()
		end := LinkEndSwitchParameter{IncomingBufSize: 1, OutgoingBufSize: 1, NumInputChannel: 1, NumOutputChannel: 1, Latency: 1}
		connector.ConnectSwitches(sw1, sw2, SwitchToSwitchLinkParameter{LeftEndParam: end, RightEndParam: end, LinkParam: LinkParameter{IsIdeal: true, Frequency: 1 * timing.GHz}})
		last = sw2
		verifrt.Cover("two-switches")
	}
	connector.ConnectDevice(sw1, sender.ports, devParam)
	connector.ConnectDevice(last, receiver.ports, devParam)
	connector.EstablishRoute()

	n := verifrt.Bound("messages", 3, 4)
	sent := make([]messaging.MsgMeta, n)
	dstPort := make([]int, n)
	for i := range sent {
		dstPort[i] = verifrt.Choice("dst-port", 2)
		sent[i] = messaging.MsgMeta{
			ID:           uint64(1000 + i),
			Src:          sender.ports[0].AsRemote(),
			Dst:          receiver.ports[dstPort[i]].AsRemote(),
			RspTo:        verifrt.Uint64("rspto"),
			TrafficClass: "c29",
			TrafficBytes: []int{8, 24, 40}[verifrt.Choice("size", 3)], // 1, 2 or 3 flits of 16 bytes
		}
		sender.toSend = append(sender.toSend, sent[i])
	}
	sender.TickLater()
	receiver.TickLater()
	verifrt.Assert(engine.Run() == nil, "run")

	count := make([]int, n)
	for _, r := range receiver.received {
		idx := -1
		for i := range sent {
			if sent[i].ID == r.meta.ID {
				idx = i
			}
		}
		verifrt.Assert(idx >= 0, "received-message-was-sent")
		if idx < 0 {
			continue
		}
		verifrt.Assert(r.meta == sent[idx], "metadata-intact")
		verifrt.Assert(r.port == dstPort[idx], "delivered-to-the-port-it-names")
		count[idx]++
	}
	for i := range sent {
		verifrt.Assert(count[i] == 1, "every-message-delivered-exactly-once")
	}
	verifrt.Assert(len(sender.received) == 0, "nothing-delivered-to-the-sender")
	verifrt.Cover("end")
}
