package switches

// C29 (fragment: one switch) — a switch conserves flits and their embedded
// message metadata and sends each one out through the port its routing table
// names for the message destination.

import (
	"github.com/sarchlab/akita/v5/hooking"
	"github.com/sarchlab/akita/v5/internal/verifrt"
	"github.com/sarchlab/akita/v5/messaging"
	"github.com/sarchlab/akita/v5/modeling"
	"github.com/sarchlab/akita/v5/noc/networking/routing"
	"github.com/sarchlab/akita/v5/noc/packetization"
	"github.com/sarchlab/akita/v5/timing"
)

type c29Peer struct {
	hooking.HookableBase
	name string
}

func (c *c29Peer) Name() string                                        { return c.name }
func (c *c29Peer) DeclarePort(name string, roles ...*messaging.Role) {}
func (c *c29Peer) AssignPort(name string, port messaging.Port)       {}
func (c *c29Peer) GetPortByName(name string) messaging.Port          { return nil }
func (c *c29Peer) Ports() []messaging.Port                           { return nil }
func (c *c29Peer) NotifyRecv(port messaging.Port)                    {}
func (c *c29Peer) NotifyPortFree(port messaging.Port)                {}

type c29Flit struct {
	flit    packetization.Flit
	inPort  int
	outPort int
	seq     int
	sent    bool
	seen    int
}

func VerifC29_Switch() {
	engine := timing.NewSerialEngine()
	reg := modeling.NewStandaloneRegistrar(engine)
	table := routing.NewTable()
	sw := MakeBuilder().WithRegistrar(reg).WithSpec(Spec{Freq: 1 * timing.GHz}).WithResources(Resources{RoutingTable: table}).Build("SW")
	nPorts := 2 + verifrt.Choice("ports", 2)
	wire := &vpWire{}
	// one port-complex configuration, shared by all ports of the switch
	bufSize := 1 + verifrt.Choice("bufsize", 2)
	latency := verifrt.Choice("latency", 3)
	inCh := 1 + verifrt.Choice("in-channels", 2)
	outCh := 1 + verifrt.Choice("out-channels", 2)
	ports := make([]messaging.Port, nPorts)
	devs := make([]messaging.RemotePort, nPorts)
	for i := 0; i < nPorts; i++ {
		remote := messaging.NewPort(&c29Peer{name: "Peer"}, 1, 1, "Peer"+string(rune('A'+i))+".Port")
		ports[i] = MakeSwitchPortAdder(sw).WithRegistrar(reg).WithRemotePort(remote).
			WithBufferSize(bufSize).WithLatency(latency).
			WithNumInputChannel(inCh).WithNumOutputChannel(outCh).Add()
		ports[i].SetConnection(wire)
		// one device lives behind every port
		devs[i] = messaging.RemotePort("Dev" + string(rune('A'+i)) + ".Port")
		table.DefineRoute(devs[i], ports[i].AsRemote())
	}
	nFlits := verifrt.Bound("flits", 3, 4)
	flits := make([]*c29Flit, nFlits)
	for k := range flits {
		f := &c29Flit{inPort: verifrt.Choice("in-port", nPorts), seq: k}
		d := verifrt.Choice("dst", nPorts-1)
		if d >= f.inPort {
			d++
		}
		f.outPort = d
		f.flit = packetization.Flit{SeqID: verifrt.IntRange("seqid", 0, 7), NumFlitInMsg: 8, MsgTaskID: verifrt.Uint64("taskid")}
		f.flit.ID = verifrt.Uint64("flit-id")
		for _, o := range flits[:k] {
			verifrt.Assume(o.flit.ID != f.flit.ID) // message ids are unique within a simulation
		}
		f.flit.Src, f.flit.Dst = "Prev.Port", ports[f.inPort].AsRemote()
		f.flit.Msg = messaging.MsgMeta{ID: verifrt.Uint64("msg-id"), Src: devs[f.inPort], Dst: devs[d], RspTo: verifrt.Uint64("rspto"), TrafficClass: "cls", TrafficBytes: verifrt.IntRange("bytes", 0, 1<<16)}
		flits[k] = f
	}
	injected, out := 0, 0
	holds := 2
	for tick := 0; tick < 12*nFlits; tick++ {
		// flits arrive in order at their input ports when there is room
		for injected < nFlits {
			f := flits[injected]
			if !ports[f.inPort].CanDeliver() {
				break
			}
			if holds > 0 && verifrt.Choice("hold", 2) == 1 {
				holds--
				break
			}
			ports[f.inPort].Deliver(f.flit)
			f.sent = true
			injected++
		}
		sw.Tick()
		for i := 0; i < nPorts; i++ {
			for ports[i].PeekOutgoing() != nil {
				g := ports[i].RetrieveOutgoing().(packetization.Flit)
				var owner *c29Flit
				for _, f := range flits {
					if f.sent && f.seen == 0 && f.flit.ID == g.ID && f.flit.Msg.ID == g.Msg.ID && f.flit.SeqID == g.SeqID {
						owner = f
						break
					}
				}
				verifrt.Assert(owner != nil, "outgoing-flit-is-one-that-came-in")
				if owner == nil {
					continue
				}
				owner.seen++
				out++
				verifrt.Assert(owner.outPort == i, "flit-leaves-through-the-routed-port")
				verifrt.Assert(g.Msg == owner.flit.Msg, "embedded-message-metadata-unchanged")
				verifrt.Assert(g.SeqID == owner.flit.SeqID && g.NumFlitInMsg == owner.flit.NumFlitInMsg && g.MsgTaskID == owner.flit.MsgTaskID, "flit-payload-unchanged")
				verifrt.Assert(g.Src == ports[i].AsRemote() && string(g.Dst) == "Peer"+string(rune('A'+i))+".Port", "only-the-hop-header-is-rewritten")
				// (order between flits accepted in the same cycle on a multi-channel
				// port is NOT asserted: the property does not require it, and the
				// multi-lane pipeline emits same-cycle items in reverse order)
			}
		}
	}
	verifrt.Assert(injected == nFlits && out == nFlits, "every-flit-leaves-exactly-once")
	for _, f := range flits {
		verifrt.Assert(f.seen == 1, "no-flit-lost-or-duplicated")
	}
	verifrt.Cover("end")
}
