package mem

// C20 — storage is a bounded flat byte array.
// Bounded histories of Read/Write with unconstrained 64-bit addresses against a
// [16]byte reference; integer encoding (64-bit wrap-around kept explicitly).

import (
	"io"

	"github.com/sarchlab/akita/v5/internal/verifrt"
)

var vpEOF = io.EOF

var c20Units = []uint64{1, 3, 4, 8}
var c20Caps = []uint64{1, 6, 9}

type c20Model struct {
	s     *Storage
	capN  uint64
	ref   [16]byte
	wrote bool
}

// valid reports whether [addr, addr+n) lies inside the capacity, evaluated
// without wrap-around.
func (m *c20Model) valid(addr, n uint64) bool {
	return verifrt.Or(n == 0, verifrt.And(addr < m.capN, n <= m.capN-addr))
}

// same asserts that every byte below the capacity reads back as in the reference.
func (m *c20Model) same(tag string) {
	capN := int(m.capN)
	for i := 0; i < capN; i++ {
		got, err := m.s.Read(uint64(i), 1)
		verifrt.Assert(err == nil, tag+"-in-range-read-succeeds")
		if err == nil && len(got) == 1 {
			verifrt.Assert(got[0] == m.ref[i], tag+"-contents-match-reference")
		}
	}
}

func (m *c20Model) op(tag string) {
	addr := verifrt.Uint64("addr")
	n := verifrt.Choice("len", 5)
	ok := m.valid(addr, uint64(n))
	if verifrt.Choice("write", 2) == 1 {
		data := make([]byte, n)
		for i := range data {
			data[i] = verifrt.Byte("data")
		}
		err := m.s.Write(addr, data)
		if ok {
			verifrt.Assert(err == nil, tag+"-valid-write-succeeds")
			if n > 0 {
				a := verifrt.Concretize(int(addr), 0, 15)
				for i := 0; i < n; i++ {
					m.ref[a+i] = data[i]
				}
				m.wrote = true
				verifrt.Cover("wrote")
			}
		} else {
			verifrt.Assert(err != nil, tag+"-out-of-range-write-fails")
			verifrt.Cover("write-refused")
			m.same(tag + "-after-refused-write")
		}
	} else {
		got, err := m.s.Read(addr, uint64(n))
		if ok {
			verifrt.Assert(err == nil, tag+"-valid-read-succeeds")
			verifrt.Assert(len(got) == n, tag+"-read-length")
			if n > 0 && err == nil && len(got) == n {
				a := verifrt.Concretize(int(addr), 0, 15)
				for i := 0; i < n; i++ {
					verifrt.Assert(got[i] == m.ref[a+i], tag+"-read-returns-last-written")
				}
				if m.wrote {
					verifrt.Cover("read-after-write")
				}
			}
		} else {
			verifrt.Assert(err != nil, tag+"-out-of-range-read-fails")
			verifrt.Cover("read-refused")
			m.same(tag + "-after-refused-read")
		}
	}
}

func c20New() *c20Model {
	m := &c20Model{}
	// capacity and unit size range over small concrete sets: every access
	// position inside the capacity is a separate path of the real code (map
	// key and slice offsets depend on it), so the sets bound the path count
	m.capN = c20Caps[verifrt.Choice("cap", len(c20Caps))]
	unit := c20Units[verifrt.Choice("unit", len(c20Units))]
	m.s = NewStorageWithUnitSize(m.capN, unit)
	return m
}

// VerifC20_Range: one arbitrary access (any 64-bit address, any length) on a
// fresh storage: accepted iff it lies inside the capacity; contents unchanged
// by a refused access.
func VerifC20_Range() {
	m := c20New()
	m.op("range")
	m.same("final")
	verifrt.Cover("end")
}

// VerifC20_Hist: an in-range write followed by k-1 arbitrary accesses.
func VerifC20_Hist() {
	m := c20New()
	addr := verifrt.Uint64("addr")
	n := 1 + verifrt.Choice("len", 4)
	verifrt.Assume(m.valid(addr, uint64(n)))
	data := make([]byte, n)
	for i := range data {
		data[i] = verifrt.Byte("data")
	}
	verifrt.Assert(m.s.Write(addr, data) == nil, "hist-first-write-succeeds")
	a := verifrt.Concretize(int(addr), 0, 15)
	for i := 0; i < n; i++ {
		m.ref[a+i] = data[i]
	}
	m.wrote = true
	k := 2 // both tiers (3 operations ran past 40 minutes and 5 GB)
	for i := 1; i < k; i++ {
		m.op("hist")
	}
	m.same("final")
	verifrt.Cover("end")
}

// VerifC20_Checkpoint: save → load into a fresh storage of equal shape
// reproduces the contents; a different shape is refused with an error.
func VerifC20_Checkpoint() {
	m := c20New()
	for i := 0; i < 2; i++ {
		addr := verifrt.Uint64("addr")
		n := 1 + verifrt.Choice("len", 3)
		verifrt.Assume(m.valid(addr, uint64(n)))
		data := make([]byte, n)
		for j := range data {
			data[j] = verifrt.Byte("data")
		}
		verifrt.Assert(m.s.Write(addr, data) == nil, "ckpt-write")
		a := verifrt.Concretize(int(addr), 0, 15)
		for j := 0; j < n; j++ {
			m.ref[a+j] = data[j]
		}
	}
	var w vpBuf
	verifrt.Assert(m.s.SaveCheckpoint(&w) == nil, "save-succeeds")
	if verifrt.Choice("same-shape", 2) == 1 {
		fresh := NewStorageWithUnitSize(m.s.capacity, m.s.unitSize)
		verifrt.Assert(fresh.LoadCheckpoint(&vpBuf{data: w.data}) == nil, "load-succeeds")
		// canonical: saving the restored storage gives the same bytes
		// (before any read: a read may allocate a zero unit, which is allowed)
		var w2 vpBuf
		verifrt.Assert(fresh.SaveCheckpoint(&w2) == nil, "resave-succeeds")
		verifrt.Assert(len(w2.data) == len(w.data), "resave-same-length")
		for i := range w.data {
			if i < len(w2.data) {
				verifrt.Assert(w.data[i] == w2.data[i], "resave-byte-identical")
			}
		}
		m2 := &c20Model{s: fresh, capN: m.capN, ref: m.ref}
		m2.same("restored")
		verifrt.Cover("restored")
	} else {
		var other *Storage
		if verifrt.Choice("which", 2) == 0 {
			other = NewStorageWithUnitSize(m.s.capacity+1, m.s.unitSize)
		} else {
			other = NewStorageWithUnitSize(m.s.capacity, m.s.unitSize+1)
		}
		verifrt.Assert(other.LoadCheckpoint(&vpBuf{data: w.data}) != nil, "shape-mismatch-refused")
		// truncated stream: error, no panic
		cut := verifrt.Choice("cut", 3)
		trunc := &vpBuf{data: w.data[:len(w.data)-1-cut]}
		fresh := NewStorageWithUnitSize(m.s.capacity, m.s.unitSize)
		verifrt.Assert(fresh.LoadCheckpoint(trunc) != nil, "truncated-stream-refused")
		verifrt.Cover("refused")
	}
	verifrt.Cover("end")
}

// vpBuf is a minimal in-memory io.Writer / io.Reader.
type vpBuf struct {
	data []byte
	pos  int
}

func (b *vpBuf) Write(p []byte) (int, error) {
	b.data = append(b.data, p...)
	return len(p), nil
}

func (b *vpBuf) Read(p []byte) (int, error) {
	if b.pos >= len(b.data) {
		return 0, vpEOF
	}
	n := copy(p, b.data[b.pos:])
	b.pos += n
	return n, nil
}

// VerifC20_Rollback: a checkpoint loaded back into the storage it was taken
// from, after the storage ran on, restores exactly the saved contents: bytes
// written afterwards - also in units that were not allocated at save time - are
// gone.
func VerifC20_Rollback() {
	unit := uint64(1 + 3*verifrt.Choice("unit", 2)) // 1 or 4
	const capN = 9
	s := NewStorageWithUnitSize(capN, unit)
	var ref [capN]byte
	a0 := verifrt.Choice("addr", capN)
	d0 := verifrt.Byte("data")
	verifrt.Assert(s.Write(uint64(a0), []byte{d0}) == nil, "write")
	ref[a0] = d0
	var w vpBuf
	verifrt.Assert(s.SaveCheckpoint(&w) == nil, "save-succeeds")
	a1 := verifrt.Choice("late-addr", capN)
	verifrt.Assert(s.Write(uint64(a1), []byte{verifrt.Byte("late-data")}) == nil, "late-write")
	verifrt.Assert(s.LoadCheckpoint(&vpBuf{data: w.data}) == nil, "load-back-succeeds")
	for i := 0; i < capN; i++ {
		got, err := s.Read(uint64(i), 1)
		verifrt.Assert(err == nil && len(got) == 1, "read-back")
		if err == nil && len(got) == 1 {
			verifrt.Assert(got[0] == ref[i], "rolled-back-contents-are-the-saved-contents")
		}
	}
	verifrt.Cover("end")
}
