package timing

// C02 — RunUntil boundaries do not change what runs or in what order.
// Relational harness: the same symbolic handler program runs on two fresh
// engines — A with a single Run(), B with RunUntil(b1) … RunUntil(bm) then Run().

import "github.com/sarchlab/akita/v5/internal/verifrt"

func VerifC02_RunUntilEquiv() {
	k := verifrt.Bound("events", 3, 4)
	m := verifrt.Bound("boundaries", 2, 3)
	p := vpDraw(k)

	a := vpNewRun(p, false)
	a.start()
	verifrt.Assert(a.e.Run() == nil, "run-a")

	b := vpNewRun(p, false)
	b.start()
	var prev VTimeInPicoSec
	nb := 1 + verifrt.Choice("nboundaries", m)
	for i := 0; i < nb; i++ {
		bound := VTimeInPicoSec(verifrt.Uint64Range("boundary", 0, 1<<41))
		verifrt.Assume(bound >= prev) // increasing or repeated
		prev = bound
		h0 := len(b.handled)
		t0 := b.e.CurrentTime()
		verifrt.Assert(b.e.RunUntil(bound) == nil, "rununtil-returns-nil")
		// precisely the events with time <= bound were handled, later ones stay queued
		for id := 0; id < p.n; id++ {
			if b.done[id] {
				verifrt.Assert(p.time[id] <= bound, "handled-only-up-to-boundary")
			} else if b.schedSeq[id] >= 0 {
				verifrt.Assert(p.time[id] > bound, "every-due-event-was-handled")
			}
		}
		// an unscheduled event is only unscheduled because its parent is still queued
		if len(b.handled) > h0 {
			last := b.handled[len(b.handled)-1]
			verifrt.Assert(b.e.CurrentTime() == p.time[last], "clock-at-last-handled-event")
			verifrt.Cover("boundary-ran-something")
		} else {
			verifrt.Assert(b.e.CurrentTime() == t0, "clock-unchanged-when-nothing-ran")
			verifrt.Cover("boundary-ran-nothing")
		}
		verifrt.Assert(b.e.CurrentTime() <= bound || len(b.handled) == h0, "clock-not-beyond-boundary")
	}
	verifrt.Assert(b.e.Run() == nil, "run-b")

	verifrt.Assert(len(a.handled) == p.n && len(b.handled) == p.n, "both-handle-everything")
	for i := range a.handled {
		if i < len(b.handled) {
			verifrt.Assert(a.handled[i] == b.handled[i], "same-order")
		}
	}
	verifrt.Assert(a.e.CurrentTime() == b.e.CurrentTime(), "same-final-time")
	verifrt.Cover("end")
}
