package modeling

// C06 (fragment) — the wake-up guards survive a checkpoint: a restored
// TickScheduler / EventDrivenComponent behaves exactly like the original for
// every later request.

import (
	"io"

	"github.com/sarchlab/akita/v5/internal/verifrt"
	"github.com/sarchlab/akita/v5/timing"
)

type c06Sched struct {
	now   timing.VTimeInPicoSec
	times []timing.VTimeInPicoSec
	secs  []bool
}

func (s *c06Sched) CurrentTime() timing.VTimeInPicoSec { return s.now }
func (s *c06Sched) Schedule(e timing.Event) {
	s.times = append(s.times, e.Time())
	s.secs = append(s.secs, e.IsSecondary())
}

type c06Buf struct {
	data []byte
	pos  int
}

func (b *c06Buf) Write(p []byte) (int, error) { b.data = append(b.data, p...); return len(p), nil }
func (b *c06Buf) Read(p []byte) (int, error) {
	if b.pos >= len(b.data) {
		return 0, io.EOF
	}
	n := copy(p, b.data[b.pos:])
	b.pos += n
	return n, nil
}

type c06Spec struct {
	Freq timing.Freq `json:"freq"`
	N    int         `json:"n"`
}
type c06State struct {
	Count uint64   `json:"count"`
	List  []uint32 `json:"list"`
}
type c06Nop struct{}

func (c06Nop) Tick() bool { return false }

// VerifC06_TickGuard: Component.SaveCheckpoint -> LoadCheckpoint into a rebuilt
// component preserves State and the tick guard; the next TickNow/TickLater at
// any later time schedules the same tick (or none) on both.
func VerifC06_TickGuard() {
	spec := c06Spec{Freq: 1 * timing.GHz, N: verifrt.IntRange("n", 0, 100)}
	build := func(s *c06Sched) *Component[c06Spec, c06State, None] {
		return NewBuilder[c06Spec, c06State, None]().WithEngine(s).WithFreq(spec.Freq).WithSpec(spec).Build("Comp")
	}
	s1 := &c06Sched{}
	orig := build(s1)
	orig.State = c06State{Count: verifrt.Uint64("count")}
	if verifrt.Choice("list", 2) == 1 {
		orig.State.List = []uint32{verifrt.Uint32("e0"), verifrt.Uint32("e1")}
	}
	// the guard is in an arbitrary state reached before the checkpoint boundary
	boundary := timing.VTimeInPicoSec(verifrt.Uint64Range("boundary", 0, 1<<40))
	s1.now = boundary
	switch verifrt.Choice("guard", 3) {
	case 0: // never ticked
	case 1: // a tick is pending after the boundary
		orig.TickLater()
		verifrt.Cover("pending-tick")
	case 2: // the last tick fired at or before the boundary
		orig.TickNow()
		if orig.nextTickTime == boundary {
			orig.markTickFired(boundary)
			verifrt.Cover("fired-tick")
		}
	}
	s1.times, s1.secs = nil, nil
	var w c06Buf
	verifrt.Assert(orig.SaveCheckpoint(&w) == nil, "save-succeeds")
	s2 := &c06Sched{}
	rest := build(s2)
	verifrt.Assert(rest.LoadCheckpoint(&c06Buf{data: w.data}) == nil, "load-succeeds")
	verifrt.Assert(rest.State.Count == orig.State.Count && len(rest.State.List) == len(orig.State.List), "state-survives")
	for i := range orig.State.List {
		verifrt.Assert(rest.State.List[i] == orig.State.List[i], "state-list-survives")
	}
	// after the boundary time has moved on (every later request happens strictly later)
	later := boundary + timing.VTimeInPicoSec(verifrt.Uint64Range("later", 1, 1<<30))
	s1.now, s2.now = later, later
	if verifrt.Choice("request", 2) == 0 {
		orig.TickNow()
		rest.TickNow()
	} else {
		orig.TickLater()
		rest.TickLater()
	}
	verifrt.Assert(len(s1.times) == len(s2.times), "restored-guard-schedules-iff-the-original-does")
	for i := range s1.times {
		if i < len(s2.times) {
			verifrt.Assert(s1.times[i] == s2.times[i] && s1.secs[i] == s2.secs[i], "restored-guard-schedules-the-same-tick")
		}
	}
	verifrt.Assert(orig.nextTickTime == rest.nextTickTime && orig.hasScheduledTick == rest.hasScheduledTick, "guards-equal-afterwards")
	verifrt.Cover("end")
}

type c06Proc struct{}

func (c06Proc) Process(c *EventDrivenComponent[c06Spec, c06State, None], now timing.VTimeInPicoSec) bool {
	return false
}

// VerifC06_WakeGuard: the same for the event-driven pending-wakeup guard.
func VerifC06_WakeGuard() {
	spec := c06Spec{N: verifrt.IntRange("n", 0, 100)}
	build := func(s *c06Sched) *EventDrivenComponent[c06Spec, c06State, None] {
		return NewEventDrivenBuilder[c06Spec, c06State, None]().WithEngine(s).WithSpec(spec).WithProcessor(c06Proc{}).Build("Comp")
	}
	s1 := &c06Sched{}
	orig := build(s1)
	orig.State = c06State{Count: verifrt.Uint64("count")}
	boundary := timing.VTimeInPicoSec(verifrt.Uint64Range("boundary", 0, 1<<40))
	s1.now = boundary
	if verifrt.Choice("armed", 2) == 1 {
		orig.ScheduleWakeAt(boundary + timing.VTimeInPicoSec(verifrt.Uint64Range("ahead", 1, 1<<30)))
		verifrt.Cover("armed")
	}
	s1.times = nil
	var w c06Buf
	verifrt.Assert(orig.SaveCheckpoint(&w) == nil, "save-succeeds")
	s2 := &c06Sched{now: boundary}
	rest := build(s2)
	verifrt.Assert(rest.LoadCheckpoint(&c06Buf{data: w.data}) == nil, "load-succeeds")
	verifrt.Assert(rest.State.Count == orig.State.Count && rest.pendingWakeup == orig.pendingWakeup, "state-and-guard-survive")
	later := boundary + timing.VTimeInPicoSec(verifrt.Uint64Range("later", 1, 1<<30))
	s1.now, s2.now = later, later
	target := later + timing.VTimeInPicoSec(verifrt.Uint64Range("target", 0, 1<<30))
	orig.ScheduleWakeAt(target)
	rest.ScheduleWakeAt(target)
	verifrt.Assert(len(s1.times) == len(s2.times), "restored-guard-schedules-iff-the-original-does")
	for i := range s1.times {
		if i < len(s2.times) {
			verifrt.Assert(s1.times[i] == s2.times[i], "restored-guard-schedules-the-same-wakeup")
		}
	}
	// a different spec is refused
	other := NewEventDrivenBuilder[c06Spec, c06State, None]().WithEngine(s2).WithSpec(c06Spec{N: spec.N + 1}).WithProcessor(c06Proc{}).Build("Comp")
	verifrt.Assert(other.LoadCheckpoint(&c06Buf{data: w.data}) != nil, "spec-mismatch-refused")
	verifrt.Cover("end")
}
