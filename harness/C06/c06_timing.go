package timing

// C06 (fragment) — the event queue's snapshot/restore is invisible: restoring a
// snapshot into an empty queue gives the same pop sequence as the original
// queue, also when further events are pushed afterwards (FIFO among equal
// times is re-established by re-assigned sequence numbers).

import "github.com/sarchlab/akita/v5/internal/verifrt"

type c06Evt struct {
	id int
	t  VTimeInPicoSec
}

func (e c06Evt) Time() VTimeInPicoSec { return e.t }
func (e c06Evt) HandlerID() string    { return "h" }
func (e c06Evt) IsSecondary() bool    { return false }

func VerifC06_QueueSnapshot() {
	// the original queue reaches an arbitrary state by pushes and pops
	q := newUnsafeEventQueue()
	n := 1 + verifrt.Choice("pushes", verifrt.Bound("events", 3, 4))
	id := 0
	for i := 0; i < n; i++ {
		q.Push(c06Evt{id: id, t: VTimeInPicoSec(verifrt.Uint64("t"))})
		id++
		if q.Len() > 1 && verifrt.Choice("pop", 2) == 1 {
			q.Pop()
		}
	}
	snap := q.snapshot()
	verifrt.Assert(len(snap) == q.Len(), "snapshot-has-every-queued-event")
	r := newUnsafeEventQueue()
	r.restore(snap)
	verifrt.Assert(r.Len() == q.Len(), "restored-length")
	// both queues then receive the same further pushes
	extra := verifrt.Choice("extra", 3)
	for i := 0; i < extra; i++ {
		e := c06Evt{id: id, t: VTimeInPicoSec(verifrt.Uint64("t2"))}
		id++
		q.Push(e)
		r.Push(e)
	}
	for q.Len() > 0 {
		a := q.Pop().(c06Evt)
		verifrt.Assert(r.Len() > 0, "restored-queue-not-shorter")
		if r.Len() == 0 {
			break
		}
		b := r.Pop().(c06Evt)
		verifrt.Assert(a.id == b.id, "same-pop-sequence-after-restore")
	}
	verifrt.Assert(r.Len() == 0, "restored-queue-not-longer")
	verifrt.Cover("end")
}

// VerifC06_EngineRefusesNonEmpty: loading into an engine with queued events is refused.
func VerifC06_EngineRefusesNonEmpty() {
	e := NewSerialEngine()
	e.Schedule(c06Evt{id: 1, t: VTimeInPicoSec(verifrt.Uint64("t"))})
	err := e.LoadCheckpoint(nil)
	verifrt.Assert(err != nil, "load-into-non-empty-engine-refused")
	verifrt.Assert(e.queue.Len() == 1, "refused-load-leaves-the-queue-alone")
	verifrt.Cover("end")
}
