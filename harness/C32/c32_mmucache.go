package mmuCache

// C32 (fragment: the traced MMU cache) — forwarded page walks with a Reset at
// an arbitrary tick; the task events of the real component are checked.

import (
	"github.com/sarchlab/akita/v5/internal/verifrt"
	"github.com/sarchlab/akita/v5/mem/memcontrolprotocol"
	"github.com/sarchlab/akita/v5/mem/vm"
	"github.com/sarchlab/akita/v5/mem/vm/vmprotocol"
	"github.com/sarchlab/akita/v5/messaging"
	"github.com/sarchlab/akita/v5/modeling"
	"github.com/sarchlab/akita/v5/timing"
	"github.com/sarchlab/akita/v5/tracing"
)

func VerifC32_MMUCache() {
	engine := timing.NewSerialEngine()
	spec := DefaultSpec()
	spec.LatencyPerLevel = 1
	spec.NumReqPerCycle = 1
	comp := MakeBuilder().WithRegistrar(modeling.NewStandaloneRegistrar(engine)).WithSpec(spec).
		WithResources(Resources{LowModulePort: "IOMMU.Top", UpModulePort: "L2TLB.Bottom"}).Build("GMMU")
	wire := &vpWire{}
	mk := func(name string) messaging.Port {
		p := messaging.NewPort(comp, 4, 4, "GMMU."+name)
		p.SetConnection(wire)
		comp.AssignPort(name, p)
		return p
	}
	top := mk("Top")
	bottom := mk("Bottom")
	ctrl := mk("Control")
	tr := &c32Tracer{}
	tracing.CollectTrace(comp, tr)
	for _, p := range []messaging.Port{top, bottom, ctrl} {
		tracing.CollectIncomingBufferTrace(p)
		tracing.CollectOutgoingBufferTrace(p)
	}
	n := verifrt.Bound("requests", 2, 3)
	resetAt := verifrt.Choice("reset-at-tick", 9) // 8 = no reset
	remoteLat := 1 + 3*verifrt.Choice("remote-latency", 2)
	type pendT struct {
		due int
		msg messaging.Msg
	}
	var pend []pendT
	sent := 0
	for tick := 0; tick < 30; tick++ {
		engine.SetCurrentTime(timing.VTimeInPicoSec(1000 * (tick + 1)))
		if sent < n && top.CanDeliver() && (tick >= 3 || verifrt.Choice("send", 2) == 1) {
			m := vmprotocol.TranslationReq{VAddr: []uint64{0x1000, 0x2000}[verifrt.Choice("page", 2)], PID: vm.PID(1), DeviceID: 1}
			m.ID, m.Src, m.Dst = timing.GetIDGenerator().Generate(), "L2TLB.Bottom", top.AsRemote()
			top.Deliver(m)
			sent++
		}
		if tick == resetAt && resetAt < 8 {
			m := memcontrolprotocol.Req{Command: memcontrolprotocol.CmdReset}
			m.ID, m.Src, m.Dst = timing.GetIDGenerator().Generate(), "Driver.Port", ctrl.AsRemote()
			ctrl.Deliver(m)
			verifrt.Cover("reset")
		}
		comp.Tick()
		for bottom.PeekOutgoing() != nil {
			q := bottom.RetrieveOutgoing().(vmprotocol.TranslationReq)
			rsp := vmprotocol.TranslationRsp{Page: vm.Page{PID: 1, VAddr: q.VAddr, PAddr: 0x20000, PageSize: 4096, Valid: true, DeviceID: 2}}
			rsp.ID, rsp.Src, rsp.Dst, rsp.RspTo = timing.GetIDGenerator().Generate(), "IOMMU.Top", q.Src, q.ID
			pend = append(pend, pendT{tick + remoteLat, rsp})
		}
		for len(pend) > 0 && pend[0].due <= tick && bottom.CanDeliver() {
			bottom.Deliver(pend[0].msg)
			pend = pend[1:]
		}
		for top.PeekOutgoing() != nil {
			top.RetrieveOutgoing()
		}
		for ctrl.PeekOutgoing() != nil {
			ctrl.RetrieveOutgoing()
		}
	}
	verifrt.Assert(sent == n, "all-requests-sent")
	c32CheckTrace(tr.events)
	if len(tr.events) >= 6 {
		verifrt.Cover("traced")
	}
	verifrt.Cover("end")
}
