package idealmemcontroller

// C32 (fragment: the traced ideal memory controller) — reads and writes, a Top
// port whose responses are taken away late (back-pressure), and a Reset at an
// arbitrary tick; the task events of the real component are checked for
// well-formedness.

import (
	"github.com/sarchlab/akita/v5/internal/verifrt"
	"github.com/sarchlab/akita/v5/mem"
	"github.com/sarchlab/akita/v5/mem/memcontrolprotocol"
	"github.com/sarchlab/akita/v5/mem/memprotocol"
	"github.com/sarchlab/akita/v5/messaging"
	"github.com/sarchlab/akita/v5/modeling"
	"github.com/sarchlab/akita/v5/timing"
	"github.com/sarchlab/akita/v5/tracing"
)

func VerifC32_IMC() {
	engine := timing.NewSerialEngine()
	spec := DefaultSpec()
	spec.Latency = 1 + verifrt.Choice("latency", 2)
	spec.Width = 1
	spec.Capacity = 1 << 16
	comp := MakeBuilder().WithRegistrar(modeling.NewStandaloneRegistrar(engine)).WithSpec(spec).
		WithResources(Resources{Storage: mem.NewStorage(1 << 16)}).Build("SBM")
	wire := &vpWire{}
	mk := func(name string, in, out int) messaging.Port {
		p := messaging.NewPort(comp, in, out, "SBM."+name)
		p.SetConnection(wire)
		comp.AssignPort(name, p)
		return p
	}
	top := mk("Top", 4, 1) // one-entry response buffer: easily back-pressured
	ctrl := mk("Control", 2, 2)
	tr := &c32Tracer{}
	tracing.CollectTrace(comp, tr)
	for _, p := range []messaging.Port{top, ctrl} {
		tracing.CollectIncomingBufferTrace(p)
		tracing.CollectOutgoingBufferTrace(p)
	}
	n := verifrt.Bound("requests", 2, 3)
	resetAt := verifrt.Choice("reset-at-tick", 11) // 10 = no reset
	drainFrom := 3 * verifrt.Choice("sink-blocked-until", 4)
	sent := 0
	for tick := 0; tick < 30; tick++ {
		engine.SetCurrentTime(timing.VTimeInPicoSec(1000 * (tick + 1)))
		if sent < n && top.CanDeliver() && (tick >= 3 || verifrt.Choice("send", 2) == 1) {
			if verifrt.Choice("read", 2) == 1 {
				m := memprotocol.ReadReq{Address: 0x40 * uint64(sent), AccessByteSize: 4}
				m.ID, m.Src, m.Dst = timing.GetIDGenerator().Generate(), "Core.Port", top.AsRemote()
				top.Deliver(m)
			} else {
				m := memprotocol.WriteReq{Address: 0x40 * uint64(sent), Data: []byte{1, 2, 3, 4}}
				m.ID, m.Src, m.Dst = timing.GetIDGenerator().Generate(), "Core.Port", top.AsRemote()
				top.Deliver(m)
			}
			sent++
		}
		if tick == resetAt && resetAt < 10 {
			m := memcontrolprotocol.Req{Command: memcontrolprotocol.CmdReset}
			m.ID, m.Src, m.Dst = timing.GetIDGenerator().Generate(), "Driver.Port", ctrl.AsRemote()
			ctrl.Deliver(m)
			verifrt.Cover("reset")
		}
		comp.Tick()
		if tick >= drainFrom {
			for top.PeekOutgoing() != nil {
				top.RetrieveOutgoing()
			}
		}
		for ctrl.PeekOutgoing() != nil {
			ctrl.RetrieveOutgoing()
		}
	}
	verifrt.Assert(sent == n, "all-requests-sent")
	c32CheckTrace(tr.events)
	if len(tr.events) >= 6 {
		verifrt.Cover("traced")
	}
	verifrt.Cover("end")
}
