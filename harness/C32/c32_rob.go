package rob

// C32 (fragment: the traced reorder buffer) — requests, lower-unit responses in
// any order and a Reset at an arbitrary tick, then quiescence; the task events
// of the real component are checked for well-formedness.

import (
	"github.com/sarchlab/akita/v5/internal/verifrt"
	"github.com/sarchlab/akita/v5/mem/memcontrolprotocol"
	"github.com/sarchlab/akita/v5/mem/memprotocol"
	"github.com/sarchlab/akita/v5/messaging"
	"github.com/sarchlab/akita/v5/modeling"
	"github.com/sarchlab/akita/v5/timing"
	"github.com/sarchlab/akita/v5/tracing"
)

func VerifC32_ROB() {
	engine := timing.NewSerialEngine()
	spec := Spec{Freq: 1 * timing.GHz, BufferSize: 2, NumReqPerCycle: 1, BottomUnit: "Mem.Top"}
	comp := MakeBuilder().WithRegistrar(modeling.NewStandaloneRegistrar(engine)).WithSpec(spec).Build("ROB")
	wire := &vpWire{}
	mk := func(name string, capN int) messaging.Port {
		p := messaging.NewPort(comp, capN, capN, "ROB."+name)
		p.SetConnection(wire)
		comp.AssignPort(name, p)
		return p
	}
	top := mk("Top", 4)
	bottom := mk("Bottom", 4)
	ctrl := mk("Control", 2)
	tr := &c32Tracer{}
	tracing.CollectTrace(comp, tr)
	for _, p := range []messaging.Port{top, bottom, ctrl} {
		tracing.CollectIncomingBufferTrace(p)
		tracing.CollectOutgoingBufferTrace(p)
	}
	n := verifrt.Bound("requests", 2, 3)
	resetAt := verifrt.Choice("reset-at-tick", 9) // 8 = no reset
	var outstanding []memprotocol.AccessReq
	sent := 0
	for tick := 0; tick < 24; tick++ {
		engine.SetCurrentTime(timing.VTimeInPicoSec(1000 * (tick + 1)))
		if sent < n && top.CanDeliver() && (tick >= 3 || verifrt.Choice("send", 2) == 1) {
			if verifrt.Choice("read", 2) == 1 {
				m := memprotocol.ReadReq{Address: 0x100 * uint64(sent+1), AccessByteSize: 1}
				m.ID, m.Src, m.Dst = timing.GetIDGenerator().Generate(), "Core.Port", top.AsRemote()
				top.Deliver(m)
			} else {
				m := memprotocol.WriteReq{Address: 0x100 * uint64(sent+1), Data: []byte{1}}
				m.ID, m.Src, m.Dst = timing.GetIDGenerator().Generate(), "Core.Port", top.AsRemote()
				top.Deliver(m)
			}
			sent++
		}
		if tick == resetAt && resetAt < 8 {
			m := memcontrolprotocol.Req{Command: memcontrolprotocol.CmdReset}
			m.ID, m.Src, m.Dst = timing.GetIDGenerator().Generate(), "Driver.Port", ctrl.AsRemote()
			ctrl.Deliver(m)
			verifrt.Cover("reset")
		}
		comp.Tick()
		for bottom.PeekOutgoing() != nil {
			outstanding = append(outstanding, bottom.RetrieveOutgoing().(memprotocol.AccessReq))
		}
		// the lower unit answers one outstanding request (any of them) or waits
		if len(outstanding) > 0 && bottom.CanDeliver() && (tick >= 7 || verifrt.Choice("answer", 2) == 1) {
			k := verifrt.Choice("which", len(outstanding))
			sh := outstanding[k]
			outstanding = append(outstanding[:k:k], outstanding[k+1:]...)
			if _, isRead := sh.(memprotocol.ReadReq); isRead {
				rsp := memprotocol.DataReadyRsp{Data: []byte{7}}
				rsp.ID, rsp.Src, rsp.Dst, rsp.RspTo = timing.GetIDGenerator().Generate(), spec.BottomUnit, bottom.AsRemote(), sh.Meta().ID
				bottom.Deliver(rsp)
			} else {
				rsp := memprotocol.WriteDoneRsp{}
				rsp.ID, rsp.Src, rsp.Dst, rsp.RspTo = timing.GetIDGenerator().Generate(), spec.BottomUnit, bottom.AsRemote(), sh.Meta().ID
				bottom.Deliver(rsp)
			}
		}
		for top.PeekOutgoing() != nil {
			top.RetrieveOutgoing()
		}
		for ctrl.PeekOutgoing() != nil {
			ctrl.RetrieveOutgoing()
		}
	}
	verifrt.Assert(sent == n, "all-requests-sent")
	c32CheckTrace(tr.events)
	if len(tr.events) >= 6 {
		verifrt.Cover("traced")
	}
	verifrt.Cover("end")
}
