package mmu

// C32 (fragment: the traced MMU) — page walks with a Reset at an arbitrary tick.

import (
	"github.com/sarchlab/akita/v5/internal/verifrt"
	"github.com/sarchlab/akita/v5/mem/memcontrolprotocol"
	"github.com/sarchlab/akita/v5/mem/vm"
	"github.com/sarchlab/akita/v5/mem/vm/vmprotocol"
	"github.com/sarchlab/akita/v5/messaging"
	"github.com/sarchlab/akita/v5/modeling"
	"github.com/sarchlab/akita/v5/timing"
	"github.com/sarchlab/akita/v5/tracing"
)

func VerifC32_MMU() {
	engine := timing.NewSerialEngine()
	pt := vm.MakePageTableBuilder().WithLog2PageSize(12).Build("PT")
	pt.Insert(vm.Page{PID: 1, VAddr: 0x1000, PAddr: 0x10000, PageSize: 4096, Valid: true, DeviceID: 1})
	pt.Insert(vm.Page{PID: 1, VAddr: 0x2000, PAddr: 0x20000, PageSize: 4096, Valid: true, DeviceID: 1})
	spec := DefaultSpec()
	spec.Latency = 1 + verifrt.Choice("walk-latency", 2)
	spec.MaxRequestsInFlight = 4
	comp := MakeBuilder().WithRegistrar(modeling.NewStandaloneRegistrar(engine)).WithSpec(spec).
		WithResources(Resources{PageTable: pt}).Build("MMU")
	wire := &vpWire{}
	mk := func(name string, in, out int) messaging.Port {
		p := messaging.NewPort(comp, in, out, "MMU."+name)
		p.SetConnection(wire)
		comp.AssignPort(name, p)
		return p
	}
	top := mk("Top", 4, 1)
	ctrl := mk("Control", 2, 2)
	tr := &c32Tracer{}
	tracing.CollectTrace(comp, tr)
	for _, p := range []messaging.Port{top, ctrl} {
		tracing.CollectIncomingBufferTrace(p)
		tracing.CollectOutgoingBufferTrace(p)
	}
	n := verifrt.Bound("requests", 2, 3)
	resetAt := verifrt.Choice("reset-at-tick", 9) // 8 = no reset
	drainFrom := 3 * verifrt.Choice("sink-blocked-until", 3)
	sent := 0
	for tick := 0; tick < 30; tick++ {
		engine.SetCurrentTime(timing.VTimeInPicoSec(1000 * (tick + 1)))
		if sent < n && top.CanDeliver() && (tick >= 3 || verifrt.Choice("send", 2) == 1) {
			m := vmprotocol.TranslationReq{VAddr: []uint64{0x1000, 0x2000}[verifrt.Choice("page", 2)], PID: vm.PID(1), DeviceID: 1}
			m.ID, m.Src, m.Dst = timing.GetIDGenerator().Generate(), "TLB.Bottom", top.AsRemote()
			top.Deliver(m)
			sent++
		}
		if tick == resetAt && resetAt < 8 {
			m := memcontrolprotocol.Req{Command: memcontrolprotocol.CmdReset}
			m.ID, m.Src, m.Dst = timing.GetIDGenerator().Generate(), "Driver.Port", ctrl.AsRemote()
			ctrl.Deliver(m)
			verifrt.Cover("reset")
		}
		comp.Tick()
		if tick >= drainFrom {
			for top.PeekOutgoing() != nil {
				top.RetrieveOutgoing()
			}
		}
		for ctrl.PeekOutgoing() != nil {
			ctrl.RetrieveOutgoing()
		}
	}
	verifrt.Assert(sent == n, "all-requests-sent")
	c32CheckTrace(tr.events)
	if len(tr.events) >= 6 {
		verifrt.Cover("traced")
	}
	verifrt.Cover("end")
}
