package tlb

// C32 (fragment: the traced TLB) — translation requests, walker responses at
// arbitrary delays and a Reset at an arbitrary tick, then quiescence; the task
// events the real component emits (through the real tracing API) are recorded:
// every started task is started once and ended exactly once with end >= start,
// every tag and milestone names a running task.

import (
	"github.com/sarchlab/akita/v5/internal/verifrt"
	"github.com/sarchlab/akita/v5/mem"
	"github.com/sarchlab/akita/v5/mem/memcontrolprotocol"
	"github.com/sarchlab/akita/v5/mem/vm"
	"github.com/sarchlab/akita/v5/mem/vm/vmprotocol"
	"github.com/sarchlab/akita/v5/messaging"
	"github.com/sarchlab/akita/v5/modeling"
	"github.com/sarchlab/akita/v5/timing"
	"github.com/sarchlab/akita/v5/tracing"
)

func VerifC32_TLB() {
	engine := timing.NewSerialEngine()
	spec := DefaultSpec()
	spec.NumSets = 1
	spec.NumWays = 2
	spec.MSHRSize = 2
	spec.NumReqPerCycle = 1
	spec.Latency = 1
	comp := MakeBuilder().WithRegistrar(modeling.NewStandaloneRegistrar(engine)).WithSpec(spec).
		WithResources(Resources{TranslationProviderMapper: &mem.SinglePortMapper{Port: "MMU.Top"}}).Build("TLB")
	wire := &vpWire{}
	mk := func(name string) messaging.Port {
		p := messaging.NewPort(comp, 4, 4, "TLB."+name)
		p.SetConnection(wire)
		comp.AssignPort(name, p)
		return p
	}
	top := mk("Top")
	bottom := mk("Bottom")
	ctrl := mk("Control")
	tr := &c32Tracer{}
	tracing.CollectTrace(comp, tr)
	for _, p := range []messaging.Port{top, bottom, ctrl} {
		// the buffer tasks the component's admission milestones refer to
		tracing.CollectIncomingBufferTrace(p)
		tracing.CollectOutgoingBufferTrace(p)
	}

	vpages := []uint64{0x1000, 0x2000}
	n := verifrt.Bound("requests", 2, 3)
	walkLat := 1 + 2*verifrt.Choice("walk-latency", 2)
	resetAt := verifrt.Choice("reset-at-tick", 12) // 11 = no reset
	type pendT struct {
		due int
		msg messaging.Msg
	}
	var pend []pendT
	sent := 0
	for tick := 0; tick < 40; tick++ {
		engine.SetCurrentTime(timing.VTimeInPicoSec(1000 * (tick + 1)))
		if sent < n && top.CanDeliver() && (tick >= 8 || verifrt.Choice("send", 2) == 1) {
			m := vmprotocol.TranslationReq{VAddr: vpages[verifrt.Choice("page", 2)], PID: vm.PID(1), DeviceID: 1}
			m.ID, m.Src, m.Dst = timing.GetIDGenerator().Generate(), "Core.Port", top.AsRemote()
			top.Deliver(m)
			sent++
		}
		if tick == resetAt && resetAt < 11 {
			m := memcontrolprotocol.Req{Command: memcontrolprotocol.CmdReset}
			m.ID, m.Src, m.Dst = timing.GetIDGenerator().Generate(), "Driver.Port", ctrl.AsRemote()
			ctrl.Deliver(m)
			verifrt.Cover("reset")
		}
		comp.Tick()
		for bottom.PeekOutgoing() != nil {
			q := bottom.RetrieveOutgoing().(vmprotocol.TranslationReq)
			rsp := vmprotocol.TranslationRsp{Page: vm.Page{PID: q.PID, VAddr: q.VAddr, PAddr: 0x100000 + q.VAddr, PageSize: 4096, Valid: true, DeviceID: 1}}
			rsp.ID, rsp.Src, rsp.Dst, rsp.RspTo = timing.GetIDGenerator().Generate(), "MMU.Top", q.Src, q.ID
			pend = append(pend, pendT{tick + walkLat, rsp})
		}
		for len(pend) > 0 && pend[0].due <= tick && bottom.CanDeliver() {
			bottom.Deliver(pend[0].msg)
			pend = pend[1:]
		}
		for top.PeekOutgoing() != nil {
			top.RetrieveOutgoing()
		}
		for ctrl.PeekOutgoing() != nil {
			ctrl.RetrieveOutgoing()
		}
	}
	verifrt.Assert(sent == n, "all-requests-sent")
	c32CheckTrace(tr.events)
	if len(tr.events) >= 6 {
		verifrt.Cover("traced")
	}
	verifrt.Cover("end")
}
