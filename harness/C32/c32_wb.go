package writeback

// C32 (fragment: the traced write-back cache) — reads and writes over
// a lower memory played by the harness, and a Reset at an arbitrary tick; the
// task events of the real component are checked for well-formedness.

import (
	"github.com/sarchlab/akita/v5/internal/verifrt"
	"github.com/sarchlab/akita/v5/mem"
	"github.com/sarchlab/akita/v5/mem/memcontrolprotocol"
	"github.com/sarchlab/akita/v5/mem/memprotocol"
	"github.com/sarchlab/akita/v5/messaging"
	"github.com/sarchlab/akita/v5/modeling"
	"github.com/sarchlab/akita/v5/timing"
	"github.com/sarchlab/akita/v5/tracing"
)

func VerifC32_WB() {
	engine := timing.NewSerialEngine()
	spec := DefaultSpec()
	spec.WayAssociativity = 2
	spec.TotalByteSize = 2 * 64
	spec.NumBanks = 1
	spec.BankLatency = 1
	spec.DirLatency = verifrt.Choice("dir-latency", verifrt.Bound("dir-latencies", 1, 2))
	spec.NumMSHREntry = 4
	spec.NumReqPerCycle = 1
	comp := MakeBuilder().WithRegistrar(modeling.NewStandaloneRegistrar(engine)).WithSpec(spec).
		WithResources(Resources{Storage: mem.NewStorage(128), AddressToPortMapper: &mem.SinglePortMapper{Port: "Mem.Top"}}).Build("L1")
	wire := &vpWire{}
	mk := func(name string) messaging.Port {
		p := messaging.NewPort(comp, 4, 4, "L1."+name)
		p.SetConnection(wire)
		comp.AssignPort(name, p)
		return p
	}
	top := mk("Top")
	bottom := mk("Bottom")
	ctrl := mk("Control")
	tr := &c32Tracer{}
	tracing.CollectTrace(comp, tr)
	for _, p := range []messaging.Port{top, bottom, ctrl} {
		tracing.CollectIncomingBufferTrace(p)
		tracing.CollectOutgoingBufferTrace(p)
	}
	n := verifrt.Bound("requests", 2, 3)
	resetAt := verifrt.Choice("reset-at-tick", 13) // 12 = no reset
	memLat := 1 + 3*verifrt.Choice("memory-latency", 2)
	type pendT struct {
		due int
		msg messaging.Msg
	}
	var pend []pendT
	sent := 0
	for tick := 0; tick < 50; tick++ {
		engine.SetCurrentTime(timing.VTimeInPicoSec(1000 * (tick + 1)))
		if sent < n && top.CanDeliver() && (tick >= 3 || verifrt.Choice("send", 2) == 1) {
			addr := uint64(64*verifrt.Choice("line", verifrt.Bound("lines", 2, 3)) + 8)
			if verifrt.Choice("read", 2) == 1 {
				m := memprotocol.ReadReq{Address: addr, AccessByteSize: 4}
				m.ID, m.Src, m.Dst = timing.GetIDGenerator().Generate(), "Core.Port", top.AsRemote()
				top.Deliver(m)
			} else {
				m := memprotocol.WriteReq{Address: addr, Data: []byte{1, 2, 3, 4}}
				m.ID, m.Src, m.Dst = timing.GetIDGenerator().Generate(), "Core.Port", top.AsRemote()
				top.Deliver(m)
			}
			sent++
		}
		if tick == resetAt && resetAt < 12 {
			m := memcontrolprotocol.Req{Command: memcontrolprotocol.CmdReset}
			m.ID, m.Src, m.Dst = timing.GetIDGenerator().Generate(), "Driver.Port", ctrl.AsRemote()
			ctrl.Deliver(m)
			verifrt.Cover("reset")
		}
		comp.Tick()
		for bottom.PeekOutgoing() != nil {
			switch q := bottom.RetrieveOutgoing().(type) {
			case memprotocol.ReadReq:
				rsp := memprotocol.DataReadyRsp{Data: make([]byte, q.AccessByteSize)}
				rsp.ID, rsp.Src, rsp.Dst, rsp.RspTo = timing.GetIDGenerator().Generate(), "Mem.Top", q.Src, q.ID
				pend = append(pend, pendT{tick + memLat, rsp})
			case memprotocol.WriteReq:
				rsp := memprotocol.WriteDoneRsp{}
				rsp.ID, rsp.Src, rsp.Dst, rsp.RspTo = timing.GetIDGenerator().Generate(), "Mem.Top", q.Src, q.ID
				pend = append(pend, pendT{tick + memLat, rsp})
			}
		}
		for len(pend) > 0 && pend[0].due <= tick && bottom.CanDeliver() {
			bottom.Deliver(pend[0].msg)
			pend = pend[1:]
		}
		for top.PeekOutgoing() != nil {
			top.RetrieveOutgoing()
		}
		for ctrl.PeekOutgoing() != nil {
			ctrl.RetrieveOutgoing()
		}
	}
	verifrt.Assert(sent == n, "all-requests-sent")
	c32CheckTrace(tr.events)
	if len(tr.events) >= 6 {
		verifrt.Cover("traced")
	}
	verifrt.Cover("end")
}
