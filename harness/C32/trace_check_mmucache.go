package mmuCache

// Shared by the per-component C32 harnesses: a recording tracer and the check
// of the recorded task-event stream.

import (
	"github.com/sarchlab/akita/v5/internal/verifrt"
	"github.com/sarchlab/akita/v5/timing"
	"github.com/sarchlab/akita/v5/tracing"
)

type c32Ev struct {
	kind int // 0 start, 1 end, 2 tag, 3 milestone
	id   uint64
	time timing.VTimeInPicoSec
	what string
}

type c32Tracer struct{ events []c32Ev }

func (t *c32Tracer) StartTask(s tracing.TaskStart) {
	t.events = append(t.events, c32Ev{0, s.ID, s.Time, s.Kind})
}
func (t *c32Tracer) EndTask(e tracing.TaskEnd) {
	t.events = append(t.events, c32Ev{1, e.ID, e.Time, ""})
}
func (t *c32Tracer) AddTaskTag(g tracing.TaskTag) {
	t.events = append(t.events, c32Ev{2, g.TaskID, g.Time, g.What})
}
func (t *c32Tracer) AddMilestone(m tracing.Milestone) {
	t.events = append(t.events, c32Ev{3, m.TaskID, m.Time, m.What})
}

// c32CheckTrace checks the recorded stream.
func c32CheckTrace(events []c32Ev) {
	type ts struct {
		id           uint64
		kind         string
		starts, ends int
		start        timing.VTimeInPicoSec
	}
	var tasks []*ts
	find := func(id uint64) *ts {
		for _, t := range tasks {
			if t.id == id {
				return t
			}
		}
		return nil
	}
	for _, e := range events {
		t := find(e.id)
		switch e.kind {
		case 0:
			verifrt.Assert(t == nil, "task-started-once")
			if t == nil {
				tasks = append(tasks, &ts{id: e.id, kind: e.what, starts: 1, start: e.time})
			}
		case 1:
			verifrt.Assert(t != nil, "ended-task-was-started")
			if t != nil {
				t.ends++
				verifrt.Assert(t.ends == 1, "task-ended-at-most-once")
				verifrt.Assert(e.time >= t.start, "end-not-before-start")
			}
		case 2, 3:
			verifrt.Assert(t != nil && t.ends == 0, "tag-or-milestone-names-a-running-task")
		}
	}
	for _, t := range tasks {
		verifrt.Assert(t.ends == 1, "every-started-task-ended-once-the-run-is-quiescent")
	}
}

