package mmuCache

// vpWire is a do-nothing messaging.Connection used when the harness plays the
// neighbours of a component by reading/filling its port buffers directly.

import (
	"github.com/sarchlab/akita/v5/hooking"
	"github.com/sarchlab/akita/v5/messaging"
)

type vpWire struct {
	hooking.HookableBase
}

func (c *vpWire) Name() string                        { return "Wire" }
func (c *vpWire) PlugIn(port messaging.Port)          {}
func (c *vpWire) Unplug(port messaging.Port)          {}
func (c *vpWire) NotifyAvailable(port messaging.Port) {}
func (c *vpWire) NotifySend()                         {}
