package dram

// C32 (fragment: the traced DRAM controller) — reads and writes, a Top port
// whose responses are taken away late, and a Reset at an arbitrary tick; the
// task events of the real component are checked for well-formedness.

import (
	"github.com/sarchlab/akita/v5/internal/verifrt"
	"github.com/sarchlab/akita/v5/mem"
	"github.com/sarchlab/akita/v5/mem/memcontrolprotocol"
	"github.com/sarchlab/akita/v5/mem/memprotocol"
	"github.com/sarchlab/akita/v5/messaging"
	"github.com/sarchlab/akita/v5/modeling"
	"github.com/sarchlab/akita/v5/timing"
	"github.com/sarchlab/akita/v5/tracing"
)

func VerifC32_DRAM() {
	engine := timing.NewSerialEngine()
	spec := DefaultSpec()
	spec.TCL, spec.TCWL, spec.TRCD, spec.TRP, spec.TRAS = 1, 1, 1, 1, 2
	spec.TRTP, spec.TWR, spec.TCCDL, spec.TCCDS, spec.TRRDL, spec.TRRDS = 1, 1, 1, 1, 1, 1
	spec.TWTRL, spec.TWTRS, spec.TRTRS = 1, 1, 1
	spec.BurstLength = 2
	comp := MakeBuilder().WithRegistrar(modeling.NewStandaloneRegistrar(engine)).WithSpec(spec).
		WithResources(Resources{Storage: mem.NewStorage(1 << 20)}).Build("DRAM")
	wire := &vpWire{}
	mk := func(name string, in, out int) messaging.Port {
		p := messaging.NewPort(comp, in, out, "DRAM."+name)
		p.SetConnection(wire)
		comp.AssignPort(name, p)
		return p
	}
	top := mk("Top", 4, 1)
	ctrl := mk("Control", 2, 2)
	tr := &c32Tracer{}
	tracing.CollectTrace(comp, tr)
	for _, p := range []messaging.Port{top, ctrl} {
		tracing.CollectIncomingBufferTrace(p)
		tracing.CollectOutgoingBufferTrace(p)
	}
	n := verifrt.Bound("requests", 2, 3)
	resetAt := verifrt.Choice("reset-at-tick", 13) // 12 = no reset
	drainFrom := 4 * verifrt.Choice("sink-blocked-until", 4)
	sent := 0
	for tick := 0; tick < 60; tick++ {
		engine.SetCurrentTime(timing.VTimeInPicoSec(1000 * (tick + 1)))
		if sent < n && top.CanDeliver() && (tick >= 3 || verifrt.Choice("send", 2) == 1) {
			if verifrt.Choice("read", 2) == 1 {
				m := memprotocol.ReadReq{Address: 0x40 * uint64(sent), AccessByteSize: 4}
				m.ID, m.Src, m.Dst = timing.GetIDGenerator().Generate(), "Core.Port", top.AsRemote()
				top.Deliver(m)
			} else {
				m := memprotocol.WriteReq{Address: 0x40 * uint64(sent), Data: []byte{1, 2, 3, 4}}
				m.ID, m.Src, m.Dst = timing.GetIDGenerator().Generate(), "Core.Port", top.AsRemote()
				top.Deliver(m)
			}
			sent++
		}
		if tick == resetAt && resetAt < 12 {
			m := memcontrolprotocol.Req{Command: memcontrolprotocol.CmdReset}
			m.ID, m.Src, m.Dst = timing.GetIDGenerator().Generate(), "Driver.Port", ctrl.AsRemote()
			ctrl.Deliver(m)
			verifrt.Cover("reset")
		}
		comp.Tick()
		if tick >= drainFrom {
			for top.PeekOutgoing() != nil {
				top.RetrieveOutgoing()
			}
		}
		for ctrl.PeekOutgoing() != nil {
			ctrl.RetrieveOutgoing()
		}
	}
	verifrt.Assert(sent == n, "all-requests-sent")
	c32CheckTrace(tr.events)
	if len(tr.events) >= 6 {
		verifrt.Cover("traced")
	}
	verifrt.Cover("end")
}
