package tracing

// C32 (fragment: the port layer and the tracing API) — traces are well-formed
// task trees: every started task is started once and, once the port is
// quiescent, has ended exactly once with end >= start; milestones and tags
// name a task that is started and not yet ended; each location hosts one kind;
// the three id registries are empty again.

import (
	"github.com/sarchlab/akita/v5/internal/verifrt"
	"github.com/sarchlab/akita/v5/timing"
)

func VerifC32_PortTrace() {
	w := tpNew(1+verifrt.Choice("incap", 2), 1+verifrt.Choice("outcap", 2), true)
	ops, ids, dts := tpDrawHistory(verifrt.Bound("ops", 5, 6))
	var now timing.VTimeInPicoSec
	for i := range ops {
		now += timing.VTimeInPicoSec(dts[i])
		w.step(ops[i], ids[i], now)
	}
	now += timing.VTimeInPicoSec(verifrt.Uint64Range("dt", 0, 1<<30))
	w.quiesce(now)

	type life struct {
		starts, ends int
		start, end   timing.VTimeInPicoSec
		kind         string
	}
	tasks := map[uint64]*life{}
	locKind := map[string]string{}
	for _, e := range w.tracer.events {
		l := tasks[e.id]
		switch e.kind {
		case 0:
			if l == nil {
				l = &life{}
				tasks[e.id] = l
			}
			l.starts++
			l.start, l.kind = e.time, e.taskKind
			verifrt.Assert(l.starts == 1, "task-started-once")
			verifrt.Assert(e.location != "", "task-has-a-location")
			if k, seen := locKind[e.location]; seen {
				verifrt.Assert(k == e.taskKind, "one-kind-per-location")
			}
			locKind[e.location] = e.taskKind
		case 1:
			verifrt.Assert(l != nil && l.starts == 1, "ended-task-was-started")
			if l != nil {
				l.ends++
				l.end = e.time
				verifrt.Assert(l.ends == 1, "task-ended-once")
				verifrt.Assert(l.end >= l.start, "end-not-before-start")
			}
		case 2, 3:
			verifrt.Assert(l != nil && l.starts == 1 && l.ends == 0, "tag-or-milestone-names-a-running-task")
			if l != nil {
				verifrt.Assert(e.time >= l.start, "tag-or-milestone-within-the-task-lifetime")
			}
		}
	}
	for _, l := range tasks {
		verifrt.Assert(l.ends == 1, "every-started-task-ended-once-at-quiescence")
	}
	verifrt.Assert(len(receiverTaskIDs) == 0 && len(incomingBufferTaskIDs) == 0 && len(outgoingBufferTaskIDs) == 0, "id-registries-empty-at-quiescence")
	if len(tasks) >= 3 {
		verifrt.Cover("three-tasks")
	}
	verifrt.Cover("end")
}
