package endpoint

// C31 — endpoints packetise and reassemble losslessly.

import (
	"github.com/sarchlab/akita/v5/hooking"
	"github.com/sarchlab/akita/v5/internal/verifrt"
	"github.com/sarchlab/akita/v5/messaging"
	"github.com/sarchlab/akita/v5/modeling"
	"github.com/sarchlab/akita/v5/noc/packetization"
	"github.com/sarchlab/akita/v5/timing"
)

// VerifC31_FlitCount: msgMetaToFlits produces exactly the number of flits the
// encoded size needs (at least one), numbered 0..n-1, each carrying an
// unmodified copy of the message metadata. The byte count is symbolic; the
// float64 encoding-overhead product and math.Ceil are encoded in the SMT
// floating-point theory.
func VerifC31_FlitCount() {
	flit := []int{1, 16, 64, 4096}[verifrt.Choice("flit-size", 4)]
	ovh := verifrt.Choice("overhead", 3)
	overhead := []float64{0, 0.25, 1}[ovh]
	bytes := verifrt.IntRange("bytes", 0, 1<<20)
	// expected encoded size, in integers: bytes + ceil(bytes*overhead)
	var extra int
	switch ovh {
	case 0:
		extra = 0
	case 1:
		extra = (bytes + 3) / 4
	case 2:
		extra = bytes
	}
	enc := bytes + extra
	verifrt.Assume(enc <= 5*flit) // keeps the flit slice small (stated bound: at most 5 flits)
	meta := messaging.MsgMeta{ID: verifrt.Uint64("id"), Src: "DevA.Port", Dst: "DevB.Port", RspTo: verifrt.Uint64("rspto"), TrafficClass: "cls", TrafficBytes: bytes}
	spec := Spec{FlitByteSize: flit, EncodingOverhead: overhead}
	flits := msgMetaToFlits(meta, spec, "EP.NetworkPort", "SW.Port", 77)
	n := len(flits)
	verifrt.Observe("n", n)
	verifrt.Assert(n >= 1, "at-least-one-flit")
	if bytes > 0 {
		verifrt.Assert((n-1)*flit < enc, "no-more-flits-than-needed")
		verifrt.Assert(enc <= n*flit, "enough-flits-for-the-encoded-size")
	} else {
		verifrt.Assert(n == 1, "empty-message-is-one-flit")
		verifrt.Cover("zero-bytes")
	}
	for i, f := range flits {
		verifrt.Assert(f.SeqID == i && f.NumFlitInMsg == n, "flits-numbered-0-to-n-1")
		verifrt.Assert(f.Msg == meta, "flit-carries-unmodified-message-metadata")
		verifrt.Assert(f.Src == "EP.NetworkPort" && f.Dst == "SW.Port" && f.MsgTaskID == 77, "flit-hop-header")
		for j := 0; j < i; j++ {
			verifrt.Assert(flits[j].ID != f.ID, "flit-ids-distinct")
		}
	}
	if n >= 3 {
		verifrt.Cover("three-flits")
	}
	verifrt.Cover("end")
}

type c31Dev struct {
	hooking.HookableBase
}

func (c *c31Dev) Name() string                                        { return "Dev" }
func (c *c31Dev) DeclarePort(name string, roles ...*messaging.Role) {}
func (c *c31Dev) AssignPort(name string, port messaging.Port)       {}
func (c *c31Dev) GetPortByName(name string) messaging.Port          { return nil }
func (c *c31Dev) Ports() []messaging.Port                           { return nil }
func (c *c31Dev) NotifyRecv(port messaging.Port)                    {}
func (c *c31Dev) NotifyPortFree(port messaging.Port)                {}

// VerifC31_Reassemble: flits of 2..3 messages arrive in an arbitrary
// interleaving and order; a message is delivered to its device port only once
// all its flits have arrived, exactly once, with the metadata of its own flits.
func VerifC31_Reassemble() {
	engine := timing.NewSerialEngine()
	spec := DefaultSpec()
	spec.NumInputChannels = 1 + verifrt.Choice("in-channels", 2)
	spec.FlitByteSize = 16
	devPort := messaging.NewPort(&c31Dev{}, 1+verifrt.Choice("dev-in-cap", 2), 1, "Dev.Port")
	ep := MakeBuilder().WithRegistrar(modeling.NewStandaloneRegistrar(engine)).WithSpec(spec).
		WithResources(Resources{DevicePorts: []messaging.Port{devPort}}).Build("EP")
	netPort := messaging.NewPort(ep, 2, 2, "EP.NetworkPort")
	netPort.SetConnection(&vpWire{})
	ep.SetNetworkPort(netPort)

	nMsg := 2 // both tiers (3 messages ran past 35 minutes)
	type msg struct {
		meta      messaging.MsgMeta
		n         int
		sent      []bool
		nSent     int
		delivered int
	}
	msgs := make([]*msg, nMsg)
	for i := range msgs {
		m := &msg{n: 1 + verifrt.Choice("flits", 3)}
		m.meta = messaging.MsgMeta{ID: verifrt.Uint64("msg-id"), Src: "Far.Port", Dst: "Dev.Port", RspTo: verifrt.Uint64("rspto"), TrafficClass: "c", TrafficBytes: verifrt.IntRange("bytes", 0, 1<<16)}
		for j := 0; j < i; j++ {
			verifrt.Assume(msgs[j].meta.ID != m.meta.ID)
		}
		m.sent = make([]bool, m.n)
		msgs[i] = m
	}
	total := 0
	for _, m := range msgs {
		total += m.n
	}
	sentAll := 0
	drains := 2
	for tick := 0; tick < 4*total+8; tick++ {
		// the network hands over another flit of some message, in any order
		if sentAll < total && netPort.CanDeliver() {
			var cands [][2]int
			for i, m := range msgs {
				for j := 0; j < m.n; j++ {
					if !m.sent[j] {
						cands = append(cands, [2]int{i, j})
					}
				}
			}
			c := cands[verifrt.Choice("next-flit", len(cands))]
			m := msgs[c[0]]
			f := packetization.Flit{SeqID: c[1], NumFlitInMsg: m.n, Msg: m.meta, MsgTaskID: uint64(1000 + c[0])}
			f.ID = timing.GetIDGenerator().Generate()
			f.Src, f.Dst = "SW.Port", netPort.AsRemote()
			netPort.Deliver(f)
			m.sent[c[1]] = true
			m.nSent++
			sentAll++
		}
		ep.Tick()
		// the device may or may not drain its port this tick
		if devPort.PeekIncoming() != nil && (drains == 0 || verifrt.Choice("drain", 2) == 1) {
			got := devPort.RetrieveIncoming().(packetization.AssembledMsg)
			var owner *msg
			for _, m := range msgs {
				if m.meta.ID == got.ID {
					owner = m
				}
			}
			verifrt.Assert(owner != nil, "delivered-message-is-one-that-was-sent")
			if owner != nil {
				verifrt.Assert(owner.nSent == owner.n, "delivered-only-after-all-its-flits-arrived")
				verifrt.Assert(got.MsgMeta == owner.meta, "delivered-with-its-own-metadata")
				owner.delivered++
				verifrt.Assert(owner.delivered == 1, "delivered-exactly-once")
			}
		} else if devPort.PeekIncoming() != nil {
			drains--
		}
	}
	for _, m := range msgs {
		verifrt.Assert(m.delivered == 1, "every-complete-message-delivered")
	}
	verifrt.Assert(len(ep.State.AssemblingMsgs) == 0 && len(ep.State.AssembledMsgs) == 0, "nothing-left-in-the-endpoint")
	verifrt.Cover("end")
}

// VerifC31_Outgoing: a device message is split into flits that leave on the
// network port in order, at most NumOutputChannels per tick.
func VerifC31_Outgoing() {
	engine := timing.NewSerialEngine()
	spec := DefaultSpec()
	spec.NumOutputChannels = 1 + verifrt.Choice("out-channels", 2)
	spec.FlitByteSize = 16
	spec.EncodingOverhead = 0 // the flit count under overhead is decided by VerifC31_FlitCount
	spec.DefaultSwitchDst = "SW.Port"
	devPort := messaging.NewPort(&c31Dev{}, 1, 2, "Dev.Port")
	ep := MakeBuilder().WithRegistrar(modeling.NewStandaloneRegistrar(engine)).WithSpec(spec).
		WithResources(Resources{DevicePorts: []messaging.Port{devPort}}).Build("EP")
	netPort := messaging.NewPort(ep, 2, 2, "EP.NetworkPort")
	netPort.SetConnection(&vpWire{})
	ep.SetNetworkPort(netPort)
	nFlits := 1 + verifrt.Choice("flits", 3)
	bytes := verifrt.IntRange("bytes", 1, 48)
	verifrt.Assume((nFlits-1)*16 < bytes)
	verifrt.Assume(bytes <= nFlits*16)
	out := packetization.AssembledMsg{}
	out.ID, out.Src, out.Dst, out.TrafficBytes, out.RspTo = verifrt.Uint64("id"), "Dev.Port", "Far.Port", bytes, verifrt.Uint64("rspto")
	devPort.Send(out)
	var got []packetization.Flit
	for tick := 0; tick < 8; tick++ {
		ep.Tick()
		k := 0
		for netPort.PeekOutgoing() != nil {
			got = append(got, netPort.RetrieveOutgoing().(packetization.Flit))
			k++
		}
		verifrt.Assert(k <= spec.NumOutputChannels, "at-most-one-flit-per-output-channel-per-tick")
	}
	verifrt.Assert(len(got) == nFlits, "message-leaves-as-the-required-number-of-flits")
	for i, f := range got {
		verifrt.Assert(f.SeqID == i && f.NumFlitInMsg == nFlits, "flits-leave-in-sequence")
		verifrt.Assert(f.Msg == out.MsgMeta, "flits-carry-the-message-metadata")
		verifrt.Assert(f.Dst == "SW.Port" && f.Src == netPort.AsRemote(), "flits-addressed-to-the-switch")
	}
	verifrt.Cover("end")
}

// VerifC31_TwoDevicePorts: one endpoint serving two device ports with
// one-entry buffers; single-flit messages for either port arrive while the
// devices drain their ports late or not at once. Every message is delivered
// exactly once, to the port it names, and nothing is dropped or duplicated when
// one port is momentarily full.
func VerifC31_TwoDevicePorts() {
	engine := timing.NewSerialEngine()
	spec := DefaultSpec()
	spec.NumInputChannels = 2
	spec.FlitByteSize = 16
	devPorts := []messaging.Port{
		messaging.NewPort(&c31Dev{}, 1, 1, "Dev.P0"),
		messaging.NewPort(&c31Dev{}, 1, 1, "Dev.P1"),
	}
	ep := MakeBuilder().WithRegistrar(modeling.NewStandaloneRegistrar(engine)).WithSpec(spec).
		WithResources(Resources{DevicePorts: devPorts}).Build("EP")
	netPort := messaging.NewPort(ep, 4, 2, "EP.NetworkPort")
	netPort.SetConnection(&vpWire{})
	ep.SetNetworkPort(netPort)

	nMsg := verifrt.Bound("messages", 3, 4)
	type msg struct {
		meta      messaging.MsgMeta
		port      int
		delivered int
	}
	msgs := make([]*msg, nMsg)
	for i := range msgs {
		m := &msg{port: verifrt.Choice("dst-port", 2)}
		m.meta = messaging.MsgMeta{ID: uint64(100 + i), Src: "Far.Port", Dst: devPorts[m.port].AsRemote(), RspTo: verifrt.Uint64("rspto"), TrafficClass: "c", TrafficBytes: 8}
		msgs[i] = m
	}
	sent := 0
	holds := [2]int{2 * verifrt.Choice("hold-p0", 3), 2 * verifrt.Choice("hold-p1", 3)} // ticks a full port stays undrained
	var fullFor [2]int
	var lastSeen [2]int
	lastSeen[0], lastSeen[1] = -1, -1
	for tick := 0; tick < 8*nMsg+16; tick++ {
		if sent < nMsg && netPort.CanDeliver() {
			m := msgs[sent]
			f := packetization.Flit{SeqID: 0, NumFlitInMsg: 1, Msg: m.meta, MsgTaskID: uint64(1000 + sent)}
			f.ID = timing.GetIDGenerator().Generate()
			f.Src, f.Dst = "SW.Port", netPort.AsRemote()
			netPort.Deliver(f)
			sent++
		}
		ep.Tick()
		for p := 0; p < 2; p++ {
			if devPorts[p].PeekIncoming() == nil {
				continue
			}
			if fullFor[p] < holds[p] {
				fullFor[p]++
				continue
			}
			fullFor[p] = 0
			got := devPorts[p].RetrieveIncoming().(packetization.AssembledMsg)
			idx := -1
			for i, m := range msgs {
				if m.meta.ID == got.ID {
					idx = i
				}
			}
			verifrt.Assert(idx >= 0, "delivered-message-is-one-that-was-sent")
			if idx >= 0 {
				m := msgs[idx]
				verifrt.Assert(m.port == p && got.MsgMeta == m.meta, "delivered-to-the-port-it-names-with-its-metadata")
				m.delivered++
				verifrt.Assert(m.delivered == 1, "delivered-exactly-once")
				verifrt.Assert(idx > lastSeen[p], "per-port-delivery-in-arrival-order")
				lastSeen[p] = idx
			}
		}
	}
	for _, m := range msgs {
		verifrt.Assert(m.delivered == 1, "every-message-delivered")
	}
	verifrt.Assert(len(ep.State.AssemblingMsgs) == 0 && len(ep.State.AssembledMsgs) == 0, "nothing-left-in-the-endpoint")
	verifrt.Cover("end")
}
