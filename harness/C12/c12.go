package modeling

// C12 — ticking components tick on clock edges, once per instant, while busy.
// Scenario on the real SerialEngine: a real TickingComponent whose ticker
// reports a symbolic progress pattern, woken by receive / port-free / tick-now
// stimuli at symbolic times. Integer encoding; the frequency ranges over a
// stated concrete set (period arithmetic is then linear), all times symbolic.

import (
	"github.com/sarchlab/akita/v5/internal/verifrt"
	"github.com/sarchlab/akita/v5/timing"
)

var c12Freqs = []timing.Freq{1 * timing.GHz, 3 * timing.Hz, 7 * timing.MHz, 1500 * timing.MHz}

type c12Stim struct {
	t    timing.VTimeInPicoSec
	kind int
}

func (s c12Stim) Time() timing.VTimeInPicoSec { return s.t }
func (s c12Stim) HandlerID() string            { return "stim" }
func (s c12Stim) IsSecondary() bool            { return false }

type c12Run struct {
	e        *timing.SerialEngine
	tc       *TickingComponent
	period   uint64
	ticks    []uint64
	needs    []uint64
	budget   int
	stimSeen int
}

// Tick implements Ticker.
func (r *c12Run) Tick() bool {
	now := uint64(r.e.CurrentTime())
	verifrt.Assert(now%r.period == 0, "ticked-only-on-clock-edges")
	if n := len(r.ticks); n > 0 {
		verifrt.Assert(r.ticks[n-1] != now, "at-most-one-tick-per-instant")
		verifrt.Assert(r.ticks[n-1] < now, "tick-times-increase")
	}
	r.ticks = append(r.ticks, now)
	progress := false
	if r.budget > 0 {
		progress = verifrt.Bool("progress")
	}
	if progress {
		r.budget--
		// after a tick that made progress: ticked again at the next clock edge
		r.needs = append(r.needs, now+r.period)
		verifrt.Cover("progress")
	}
	return progress
}

// Handle implements timing.Handler for the stimuli.
func (r *c12Run) Handle(e timing.Event) error {
	s := e.(c12Stim)
	t := uint64(s.t)
	r.stimSeen++
	nextEdge := t - t%r.period + r.period // smallest multiple strictly after t
	thisEdge := t
	if t%r.period != 0 {
		thisEdge = nextEdge
	}
	switch s.kind {
	case 0:
		r.tc.NotifyRecv(nil)
		r.needs = append(r.needs, nextEdge)
		verifrt.Cover("notify-recv")
	case 1:
		r.tc.NotifyPortFree(nil)
		r.needs = append(r.needs, nextEdge)
		verifrt.Cover("notify-free")
	case 2:
		// TickNow is only a perturbation here: the statement promises nothing
		// about it (a TickNow at an instant for which a later tick is already
		// scheduled is absorbed by the once-per-instant guard; see C09).
		r.tc.TickNow()
		_ = thisEdge
		verifrt.Cover("tick-now")
	case 3:
		r.tc.TickLater()
		r.needs = append(r.needs, nextEdge)
	}
	return nil
}

func VerifC12_Scenario() {
	k := 1 + verifrt.Choice("stimuli", verifrt.Bound("stimuli", 2, 3))
	nf := len(c12Freqs)
	if k == 3 {
		nf = 2 // three stimuli only with 1 GHz and 3 Hz (all four frequencies ran past 25 minutes)
	}
	f := c12Freqs[verifrt.Choice("freq", nf)]
	r := &c12Run{e: timing.NewSerialEngine(), budget: 2}
	r.period = uint64(f.Period())
	if verifrt.Choice("secondary", 2) == 1 {
		r.tc = NewSecondaryTickingComponent("Comp", r.e, f, r)
	} else {
		r.tc = NewTickingComponent("Comp", r.e, f, r)
	}
	r.e.RegisterHandler("stim", r)
	for i := 0; i < k; i++ {
		t := verifrt.Uint64Range("t", 0, 1<<42)
		r.e.Schedule(c12Stim{t: timing.VTimeInPicoSec(t), kind: verifrt.Choice("kind", 4)})
	}
	verifrt.Assert(r.e.Run() == nil, "run")
	verifrt.Assert(r.stimSeen == k, "all-stimuli-ran")
	for _, n := range r.needs {
		found := false
		for _, tk := range r.ticks {
			found = verifrt.Or(found, tk == n)
		}
		verifrt.Assert(found, "required-tick-happened-at-its-clock-edge")
	}
	verifrt.Observe("nticks", len(r.ticks))
	verifrt.Cover("end")
}
