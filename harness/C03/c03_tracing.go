package tracing

import (
	"github.com/sarchlab/akita/v5/internal/verifrt"
	"github.com/sarchlab/akita/v5/timing"
)

type c03Backend struct{ rows []any }

func (b *c03Backend) CreateTable(tableName string, sampleEntry any) {}
func (b *c03Backend) InsertData(tableName string, entry any)         { b.rows = append(b.rows, entry) }
func (b *c03Backend) ListTables() []string                           { return nil }
func (b *c03Backend) Flush()                                         {}
func (b *c03Backend) Close() error                                   { return nil }

type c03Clock struct{ now timing.VTimeInPicoSec }

func (c *c03Clock) CurrentTime() timing.VTimeInPicoSec { return c.now }

// VerifC03_StartTracing: StartTracing marks every running task, whatever the
// order in which the task map is visited.
func VerifC03_StartTracing() {
	be := &c03Backend{}
	tr := NewDBTracer(&c03Clock{}, be)
	n := 2 + verifrt.Choice("tasks", 2)
	for i := 1; i <= n; i++ {
		tr.StartTask(TaskStart{ID: uint64(i), Kind: "k", What: "w", Location: "L", Time: 1})
	}
	tr.StartTracing()
	for i := 1; i <= n; i++ {
		tr.EndTask(TaskEnd{ID: uint64(i), Time: 2})
	}
	verifrt.Assert(len(be.rows) == n, "every-running-task-recorded-whatever-the-map-order")
	for i, r := range be.rows {
		e, ok := r.(taskTableEntry)
		verifrt.Assert(ok && e.ID == uint64(i+1), "rows-in-end-order")
	}
	verifrt.Cover("end")
}
