package writeback

// C03 (fragment: one assembled stack, map iteration order) — the same concrete
// workload runs twice on two separately built cache/memory stacks on the real
// serial engine; every range over a Go map executed anywhere in the two runs
// draws its own symbolic iteration order. Both runs answer the same requests in
// the same order at the same times: nothing observable depends on map order.

import (
	"github.com/sarchlab/akita/v5/internal/verifrt"
	"github.com/sarchlab/akita/v5/mem"
	"github.com/sarchlab/akita/v5/mem/cache/writethroughcache"
	"github.com/sarchlab/akita/v5/mem/idealmemcontroller"
	"github.com/sarchlab/akita/v5/mem/memprotocol"
	"github.com/sarchlab/akita/v5/messaging"
	"github.com/sarchlab/akita/v5/modeling"
	"github.com/sarchlab/akita/v5/noc/directconnection"
	"github.com/sarchlab/akita/v5/timing"
)

type c03Obs struct {
	idx  int
	time timing.VTimeInPicoSec
	b0   byte
}

type c03Agent struct {
	*modeling.TickingComponent
	port  messaging.Port
	ids   []uint64
	kinds []int
	lines []int
	next  int
	ticks int
	obs   []c03Obs
}

func (a *c03Agent) Tick() bool {
	a.ticks++
	progress := false
	for {
		rsp := a.port.RetrieveIncoming()
		if rsp == nil {
			break
		}
		progress = true
		o := c03Obs{idx: -1, time: a.CurrentTime()}
		for i, id := range a.ids {
			if rsp.Meta().RspTo == id {
				o.idx = i
			}
		}
		if dr, ok := rsp.(memprotocol.DataReadyRsp); ok && len(dr.Data) > 0 {
			o.b0 = dr.Data[0]
		}
		a.obs = append(a.obs, o)
	}
	if a.next < len(a.ids) && a.port.CanSend() {
		addr := uint64(a.lines[a.next])*64 + 8
		if a.kinds[a.next] == 0 {
			m := memprotocol.ReadReq{Address: addr, AccessByteSize: 4}
			m.ID, m.Src, m.Dst = a.ids[a.next], a.port.AsRemote(), "L1.Top"
			m.TrafficBytes, m.TrafficClass = 12, "req"
			a.port.Send(m)
		} else {
			m := memprotocol.WriteReq{Address: addr, Data: []byte{byte(a.next + 1), 2, 3, 4}}
			m.ID, m.Src, m.Dst = a.ids[a.next], a.port.AsRemote(), "L1.Top"
			m.TrafficBytes, m.TrafficClass = 16, "req"
			a.port.Send(m)
		}
		a.next++
		progress = true
	}
	return progress || len(a.obs) < a.next
}

func c03Run(kinds, lines []int) ([]c03Obs, timing.VTimeInPicoSec) {
	engine := timing.NewSerialEngine()
	reg := modeling.NewStandaloneRegistrar(engine)
	port := func(c messaging.Component, name string) messaging.Port { return messaging.NewPort(c, 4, 4, name) }
	conn := directconnection.MakeBuilder().WithRegistrar(reg).Build("Conn")
	memSpec := idealmemcontroller.DefaultSpec()
	memSpec.Latency = 2
	memSpec.Capacity = 1 << 16
	lower := idealmemcontroller.MakeBuilder().WithRegistrar(reg).WithSpec(memSpec).
		WithResources(idealmemcontroller.Resources{Storage: mem.NewStorage(1 << 16)}).Build("Mem")
	for _, n := range []string{"Top", "Control"} {
		p := port(lower, "Mem."+n)
		lower.AssignPort(n, p)
		conn.PlugIn(p)
	}
	wbSpec := DefaultSpec()
	wbSpec.WayAssociativity, wbSpec.TotalByteSize, wbSpec.NumBanks, wbSpec.BankLatency, wbSpec.DirLatency, wbSpec.NumMSHREntry, wbSpec.NumReqPerCycle = 2, 2*64, 1, 1, 0, 4, 1
	l2 := MakeBuilder().WithRegistrar(reg).WithSpec(wbSpec).
		WithResources(Resources{Storage: mem.NewStorage(128), AddressToPortMapper: &mem.SinglePortMapper{Port: "Mem.Top"}}).Build("L2")
	for _, n := range []string{"Top", "Bottom", "Control"} {
		p := port(l2, "L2."+n)
		l2.AssignPort(n, p)
		conn.PlugIn(p)
	}
	wtSpec := writethroughcache.DefaultSpec()
	wtSpec.WayAssociativity, wtSpec.TotalByteSize, wtSpec.NumBanks, wtSpec.BankLatency, wtSpec.DirLatency, wtSpec.NumReqPerCycle = 2, 2*64, 1, 1, 1, 1
	wtSpec.WritePolicyType = "write-through"
	l1 := writethroughcache.MakeBuilder().WithRegistrar(reg).WithSpec(wtSpec).
		WithResources(writethroughcache.Resources{Storage: mem.NewStorage(128), AddressMapper: &mem.SinglePortMapper{Port: "L2.Top"}}).Build("L1")
	for _, n := range []string{"Top", "Bottom", "Control"} {
		p := port(l1, "L1."+n)
		l1.AssignPort(n, p)
		conn.PlugIn(p)
	}
	agent := &c03Agent{kinds: kinds, lines: lines}
	agent.TickingComponent = modeling.NewTickingComponent("Agent", engine, 1*timing.GHz, agent)
	agent.port = port(agent, "Agent.Port")
	conn.PlugIn(agent.port)
	for i := range kinds {
		agent.ids = append(agent.ids, uint64(5000+i))
	}
	agent.TickLater()
	verifrt.Assert(engine.Run() == nil, "run")
	return agent.obs, engine.CurrentTime()
}

func VerifC03_Stack() {
	n := verifrt.Bound("requests", 3, 4)
	kinds := make([]int, n)
	lines := make([]int, n)
	for i := range kinds {
		kinds[i] = verifrt.Choice("write", 2)
		lines[i] = verifrt.Choice("line", 3)
	}
	a, ta := c03Run(kinds, lines)
	b, tb := c03Run(kinds, lines)
	verifrt.Assert(len(a) == n && len(b) == n, "every-request-answered-in-both-runs")
	verifrt.Assert(ta == tb, "same-final-time")
	for i := range a {
		if i < len(b) {
			verifrt.Assert(a[i] == b[i], "same-responses-in-the-same-order-at-the-same-times")
		}
	}
	verifrt.Cover("end")
}
