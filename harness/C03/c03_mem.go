package mem

import "github.com/sarchlab/akita/v5/internal/verifrt"

type c03Buf struct{ data []byte }

func (b *c03Buf) Write(p []byte) (int, error) { b.data = append(b.data, p...); return len(p), nil }

// VerifC03_StorageCheckpoint: the checkpoint bytes of a storage do not depend
// on the iteration order of its unit map.
func VerifC03_StorageCheckpoint() {
	mk := func(order []uint64, vals []byte) *Storage {
		s := NewStorageWithUnitSize(16, 4)
		for i, a := range order {
			_ = s.Write(a, []byte{vals[i]})
		}
		return s
	}
	v := []byte{verifrt.Byte("v0"), verifrt.Byte("v1"), verifrt.Byte("v2")}
	a := mk([]uint64{0, 4, 8}, v)
	b := mk([]uint64{8, 4, 0}, []byte{v[2], v[1], v[0]})
	var wa, wb c03Buf
	verifrt.Assert(a.SaveCheckpoint(&wa) == nil && b.SaveCheckpoint(&wb) == nil, "save")
	verifrt.Assert(len(wa.data) == len(wb.data), "same-length")
	for i := range wa.data {
		if i < len(wb.data) {
			verifrt.Assert(wa.data[i] == wb.data[i], "checkpoint-bytes-independent-of-map-order")
		}
	}
	verifrt.Cover("end")
}
