package vm

import "github.com/sarchlab/akita/v5/internal/verifrt"

// VerifC03_ReverseLookup: the page returned for a physical page shared by
// several processes does not depend on map iteration order.
func VerifC03_ReverseLookup() {
	n := 2 + verifrt.Choice("procs", 2)
	p := verifrt.Uint64("paddr")
	mk := func(order []int) *pageTableImpl {
		pt := NewPageTable(12).(*pageTableImpl)
		for _, i := range order {
			pt.Insert(Page{PID: PID(i + 1), VAddr: uint64(i+1) << 12, PAddr: p, PageSize: 4096, Valid: true})
		}
		return pt
	}
	fwd, rev := []int{}, []int{}
	for i := 0; i < n; i++ {
		fwd = append(fwd, i)
		rev = append([]int{i}, rev...)
	}
	a, b := mk(fwd), mk(rev)
	ga, oka := a.ReverseLookup(p)
	gb, okb := b.ReverseLookup(p)
	verifrt.Assert(oka && okb && ga == gb, "reverse-lookup-independent-of-map-and-insertion-order")
	verifrt.Cover("end")
}
