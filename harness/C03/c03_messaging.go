package messaging

// C03 (fragment) — no result depends on map iteration order. Every `range`
// over a Go map draws a fresh symbolic iteration order (executor forks over the
// permutations); each function is run on two instances holding the same
// contents and must give the same result.

import "github.com/sarchlab/akita/v5/internal/verifrt"

func VerifC03_Ports() {
	n := 1 + verifrt.Choice("ports", 3)
	names := []string{"Top", "Bottom", "Control"}
	mk := func(order []int) *PortOwnerBase {
		po := NewPortOwnerBase()
		for _, i := range order {
			po.DeclarePort(names[i])
		}
		for _, i := range order {
			po.AssignPort(names[i], NewPort(nil, 1, 1, "C."+names[i]))
		}
		return po
	}
	fwd, rev := []int{}, []int{}
	for i := 0; i < n; i++ {
		fwd = append(fwd, i)
		rev = append([]int{i}, rev...)
	}
	a, b := mk(fwd), mk(rev) // same contents, different insertion (and iteration) order
	pa, pb := a.Ports(), b.Ports()
	verifrt.Assert(len(pa) == n && len(pb) == n, "ports-lists-every-port")
	for i := range pa {
		if i < len(pb) {
			verifrt.Assert(pa[i].Name() == pb[i].Name(), "ports-order-independent-of-map-order")
		}
		if i > 0 {
			verifrt.Assert(pa[i-1].Name() < pa[i].Name(), "ports-sorted-by-name")
		}
	}
	verifrt.Cover("end")
}
