package timing

// C41 — generated IDs are unique and the sequential counter is reproducible.

import (
	"io"
	"sync"

	"github.com/sarchlab/akita/v5/internal/verifrt"
)

type c41Buf struct {
	data []byte
	pos  int
}

func (b *c41Buf) Write(p []byte) (int, error) { b.data = append(b.data, p...); return len(p), nil }
func (b *c41Buf) Read(p []byte) (int, error) {
	if b.pos >= len(b.data) {
		return 0, io.EOF
	}
	n := copy(p, b.data[b.pos:])
	b.pos += n
	return n, nil
}

// VerifC41_Seq: from an arbitrary counter value, k calls hand out c+1 … c+k:
// nonzero, pairwise distinct, the same in every run.
func VerifC41_Seq() {
	ResetIDGenerator()
	if verifrt.Choice("parallel", 2) == 1 {
		UseParallelIDGenerator()
		g := GetIDGenerator().(*parallelIDGenerator)
		c := verifrt.Uint64Range("counter", 0, ^uint64(0)-16)
		g.nextID = c
		c41Draw(g, c)
		verifrt.Cover("parallel")
	} else {
		g := GetIDGenerator().(*sequentialIDGenerator)
		c := verifrt.Uint64Range("counter", 0, ^uint64(0)-16)
		SetIDGeneratorNextID(c)
		verifrt.Assert(GetIDGeneratorNextID() == c, "set-get-next-id")
		c41Draw(g, c)
		verifrt.Cover("sequential")
	}
	verifrt.Cover("end")
}

func c41Draw(g IDGenerator, c uint64) {
	k := verifrt.Bound("calls", 4, 8)
	var ids []uint64
	for i := 0; i < k; i++ {
		id := g.Generate()
		verifrt.Assert(id != 0, "id-nonzero")
		verifrt.Assert(id == c+uint64(i)+1, "id-sequence-is-counter-plus-one")
		for _, o := range ids {
			verifrt.Assert(o != id, "ids-pairwise-distinct")
		}
		ids = append(ids, id)
	}
	// the global accessor hands out the same generator (one ID space per simulation)
	verifrt.Assert(GetIDGenerator() == g, "one-generator-per-simulation")
}

// VerifC41_Checkpoint: save after j calls, load into a fresh generator, continue:
// the restored generator continues the sequence exactly.
func VerifC41_Checkpoint() {
	g := &sequentialIDGenerator{}
	c := verifrt.Uint64Range("counter", 0, ^uint64(0)-16)
	g.nextID = c
	j := verifrt.Choice("saveAfter", 4)
	for i := 0; i < j; i++ {
		g.Generate()
	}
	var w c41Buf
	verifrt.Assert(g.SaveCheckpoint(&w) == nil, "save-succeeds")
	fresh := &sequentialIDGenerator{nextID: verifrt.Uint64("garbage")}
	verifrt.Assert(fresh.LoadCheckpoint(&c41Buf{data: w.data}) == nil, "load-succeeds")
	for i := 0; i < 3; i++ {
		a, b := g.Generate(), fresh.Generate()
		verifrt.Assert(a == b, "restored-generator-continues-the-sequence")
		verifrt.Assert(b == c+uint64(j)+uint64(i)+1, "restored-sequence-value")
	}
	verifrt.Cover("end")
}

// VerifC41_KindMismatch: a checkpoint of another kind is refused; the parallel
// generator refuses to checkpoint.
func VerifC41_KindMismatch() {
	p := &parallelIDGenerator{}
	var w c41Buf
	verifrt.Assert(p.SaveCheckpoint(&w) != nil, "parallel-generator-not-checkpointable")
	verifrt.Assert(p.LoadCheckpoint(&w) != nil, "parallel-generator-not-restorable")
	verifrt.Cover("end")
}

// VerifC41_Concurrent: several goroutines obtain the generator through the
// global accessor (racing on its lazy creation) and draw IDs concurrently; every
// interleaving within the preemption bound is a path. All IDs are nonzero and
// pairwise distinct, and together they are exactly counter+1 … counter+total.
func VerifC41_Concurrent() {
	ResetIDGenerator()
	par := verifrt.Choice("parallel", 2) == 1
	if par {
		UseParallelIDGenerator()
	}
	preset := verifrt.Choice("counter-preset", 2) == 1
	var c uint64
	if preset {
		c = verifrt.Uint64Range("counter", 0, 1<<62) // room for the native stress run
		if par {
			GetIDGenerator().(*parallelIDGenerator).nextID = c
		} else {
			GetIDGenerator()
			SetIDGeneratorNextID(c)
		}
	}
	nG := verifrt.Bound("goroutines", 2, 3)
	per := verifrt.Stress(2, 20000) // natively each caller draws many more IDs (same assertions)
	var mu sync.Mutex
	var wg sync.WaitGroup
	var ids []uint64
	var gens []IDGenerator
	for t := 0; t < nG; t++ {
		wg.Add(1)
		go func() {
			g := GetIDGenerator() // when not preset: races on the lazy creation
			mine := make([]uint64, 0, per)
			for i := 0; i < per; i++ {
				mine = append(mine, g.Generate())
			}
			mu.Lock()
			ids = append(ids, mine...)
			gens = append(gens, g)
			mu.Unlock()
			wg.Done()
		}()
	}
	wg.Wait()
	total := nG * per
	verifrt.Assert(len(ids) == total, "every-call-returned")
	for _, g := range gens {
		verifrt.Assert(g == gens[0], "one-generator-per-simulation")
	}
	seen := make(map[uint64]bool, total)
	var sum uint64
	distinct, nonzero, inRange := true, true, true
	for _, id := range ids {
		nonzero = verifrt.And(nonzero, id != 0)
		inRange = verifrt.And(inRange, verifrt.And(id-c >= 1, id-c <= uint64(total)))
		if seen[id-c] {
			distinct = false
		}
		seen[id-c] = true
		sum += id - c
	}
	verifrt.Assert(nonzero, "id-nonzero")
	verifrt.Assert(inRange, "ids-are-the-next-values-of-the-counter")
	verifrt.Assert(distinct, "ids-pairwise-distinct")
	verifrt.Assert(sum == uint64(total)*uint64(total+1)/2, "ids-are-exactly-the-next-total-values")
	verifrt.Cover("end")
}
