package timing

// C41 — generated IDs are unique and the sequential counter is reproducible.

import (
	"io"

	"github.com/sarchlab/akita/v5/internal/verifrt"
)

type c41Buf struct {
	data []byte
	pos  int
}

func (b *c41Buf) Write(p []byte) (int, error) { b.data = append(b.data, p...); return len(p), nil }
func (b *c41Buf) Read(p []byte) (int, error) {
	if b.pos >= len(b.data) {
		return 0, io.EOF
	}
	n := copy(p, b.data[b.pos:])
	b.pos += n
	return n, nil
}

// VerifC41_Seq: from an arbitrary counter value, k calls hand out c+1 … c+k:
// nonzero, pairwise distinct, the same in every run.
func VerifC41_Seq() {
	ResetIDGenerator()
	if verifrt.Choice("parallel", 2) == 1 {
		UseParallelIDGenerator()
		g := GetIDGenerator().(*parallelIDGenerator)
		c := verifrt.Uint64Range("counter", 0, ^uint64(0)-16)
		g.nextID = c
		c41Draw(g, c)
		verifrt.Cover("parallel")
	} else {
		g := GetIDGenerator().(*sequentialIDGenerator)
		c := verifrt.Uint64Range("counter", 0, ^uint64(0)-16)
		SetIDGeneratorNextID(c)
		verifrt.Assert(GetIDGeneratorNextID() == c, "set-get-next-id")
		c41Draw(g, c)
		verifrt.Cover("sequential")
	}
	verifrt.Cover("end")
}

func c41Draw(g IDGenerator, c uint64) {
	k := verifrt.Bound("calls", 4, 8)
	var ids []uint64
	for i := 0; i < k; i++ {
		id := g.Generate()
		verifrt.Assert(id != 0, "id-nonzero")
		verifrt.Assert(id == c+uint64(i)+1, "id-sequence-is-counter-plus-one")
		for _, o := range ids {
			verifrt.Assert(o != id, "ids-pairwise-distinct")
		}
		ids = append(ids, id)
	}
	// the global accessor hands out the same generator (one ID space per simulation)
	verifrt.Assert(GetIDGenerator() == g, "one-generator-per-simulation")
}

// VerifC41_Checkpoint: save after j calls, load into a fresh generator, continue:
// the restored generator continues the sequence exactly.
func VerifC41_Checkpoint() {
	g := &sequentialIDGenerator{}
	c := verifrt.Uint64Range("counter", 0, ^uint64(0)-16)
	g.nextID = c
	j := verifrt.Choice("saveAfter", 4)
	for i := 0; i < j; i++ {
		g.Generate()
	}
	var w c41Buf
	verifrt.Assert(g.SaveCheckpoint(&w) == nil, "save-succeeds")
	fresh := &sequentialIDGenerator{nextID: verifrt.Uint64("garbage")}
	verifrt.Assert(fresh.LoadCheckpoint(&c41Buf{data: w.data}) == nil, "load-succeeds")
	for i := 0; i < 3; i++ {
		a, b := g.Generate(), fresh.Generate()
		verifrt.Assert(a == b, "restored-generator-continues-the-sequence")
		verifrt.Assert(b == c+uint64(j)+uint64(i)+1, "restored-sequence-value")
	}
	verifrt.Cover("end")
}

// VerifC41_KindMismatch: a checkpoint of another kind is refused; the parallel
// generator refuses to checkpoint.
func VerifC41_KindMismatch() {
	p := &parallelIDGenerator{}
	var w c41Buf
	verifrt.Assert(p.SaveCheckpoint(&w) != nil, "parallel-generator-not-checkpointable")
	verifrt.Assert(p.LoadCheckpoint(&w) != nil, "parallel-generator-not-restorable")
	verifrt.Cover("end")
}
