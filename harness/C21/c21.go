package rob

// C21 — reorder buffers release responses in arrival order.
// The real component (real builder, real ports) is ticked directly; the
// harness plays two requesters on the Top port and the lower unit on the
// Bottom port, which completes the shadow requests in an arbitrary order after
// arbitrary delays, interleaved with new requests.

import (
	"github.com/sarchlab/akita/v5/internal/verifrt"
	"github.com/sarchlab/akita/v5/mem/memprotocol"
	"github.com/sarchlab/akita/v5/messaging"
	"github.com/sarchlab/akita/v5/modeling"
	"github.com/sarchlab/akita/v5/timing"
)

type c21Req struct {
	id     uint64
	src    messaging.RemotePort
	isRead bool
	data   []byte // write data
	result []byte // what the lower unit returned for this request's shadow
}

type c21Shadow struct {
	msg   memprotocol.AccessReq
	owner int // index into reqs
}

// VerifC21_Order: every completion order of the lower unit.
func VerifC21_Order() { c21Run(3, 0) } // both tiers: 4 requests ran past 40 minutes; the thorough tier lets the requesters be arbitrary

// VerifC21_Stray: as Order with fewer requests, plus one stray response that
// answers no live request.
func VerifC21_Stray() { c21Run(2, 1) } // both tiers: 3 requests plus a stray response ran past 20 minutes

func c21Run(nReq int, strays int) {
	engine := timing.NewSerialEngine()
	spec := Spec{Freq: 1 * timing.GHz, BufferSize: 1 + verifrt.Choice("buffer", 3), NumReqPerCycle: 1 + verifrt.Choice("width", 2), BottomUnit: "Mem.Top"}
	comp := MakeBuilder().WithRegistrar(modeling.NewStandaloneRegistrar(engine)).WithSpec(spec).Build("ROB")
	wire := &vpWire{}
	mk := func(name string, capN int) messaging.Port {
		p := messaging.NewPort(comp, capN, capN, "ROB."+name)
		p.SetConnection(wire)
		comp.AssignPort(name, p)
		return p
	}
	top := mk("Top", 4)
	bottom := mk("Bottom", 4)
	mk("Control", 1)

	reqs := make([]c21Req, 0, nReq)
	for i := 0; i < nReq; i++ {
		r := c21Req{id: verifrt.Uint64("req-id"), isRead: verifrt.Choice("read", 2) == 1}
		if verifrt.Thorough() {
			r.src = []messaging.RemotePort{"CoreA.Port", "CoreB.Port"}[verifrt.Choice("requester", 2)]
		} else {
			r.src = []messaging.RemotePort{"CoreA.Port", "CoreB.Port"}[i%2] // quick tier: requesters alternate
		}
		for _, o := range reqs {
			verifrt.Assume(o.id != r.id) // message ids are unique in a simulation
		}
		if !r.isRead {
			r.data = []byte{verifrt.Byte("wdata")}
		}
		reqs = append(reqs, r)
	}

	injected := 0
	var accepted []int       // request indices in the order the ROB took them from the Top port
	var outstanding []c21Shadow
	seenShadow := 0
	answered := 0
	var responses []messaging.Msg
	stalls := 3 // bounded idle decisions of the harness
	for tick := 0; tick < 40; tick++ {
		// a requester may put the next request on the Top port
		if injected < nReq && top.CanDeliver() && (stalls == 0 || verifrt.Choice("inject", 2) == 1) {
			r := reqs[injected]
			if r.isRead {
				m := memprotocol.ReadReq{Address: 0x100 * uint64(injected+1), AccessByteSize: 1}
				m.ID, m.Src, m.Dst = r.id, r.src, top.AsRemote()
				top.Deliver(m)
			} else {
				m := memprotocol.WriteReq{Address: 0x100 * uint64(injected+1), Data: r.data}
				m.ID, m.Src, m.Dst = r.id, r.src, top.AsRemote()
				top.Deliver(m)
			}
			injected++
		} else if injected < nReq && stalls > 0 {
			stalls--
		}
		before := top.NumIncoming()
		progress := comp.Tick()
		for k := top.NumIncoming(); k < before; k++ {
			accepted = append(accepted, len(accepted))
		}
		// the lower unit sees the shadow requests …
		for bottom.PeekOutgoing() != nil {
			sh := bottom.RetrieveOutgoing().(memprotocol.AccessReq)
			verifrt.Assert(sh.Meta().Dst == spec.BottomUnit && sh.Meta().Src == bottom.AsRemote(), "shadow-addressed-to-the-lower-unit")
			outstanding = append(outstanding, c21Shadow{msg: sh, owner: seenShadow})
			seenShadow++
		}
		// a stray response (e.g. the late answer to a request forgotten by a reset):
		// its RspTo matches no outstanding shadow request; the ROB must drop it
		busy := false
		if strays > 0 && bottom.CanDeliver() && verifrt.Choice("stray", 2) == 1 {
			strays--
			id := verifrt.Uint64("stray-rspto")
			for _, sh := range outstanding {
				verifrt.Assume(id != sh.msg.Meta().ID)
			}
			for _, tr := range comp.State.Transactions {
				verifrt.Assume(id != tr.ReqToBottomID)
			}
			rsp := memprotocol.DataReadyRsp{Data: []byte{verifrt.Byte("stray-data")}}
			rsp.ID = timing.GetIDGenerator().Generate()
			rsp.Src, rsp.Dst, rsp.RspTo = spec.BottomUnit, bottom.AsRemote(), id
			bottom.Deliver(rsp)
			busy = true
			verifrt.Cover("stray")
		}
		// … and completes one of them, in any order, or waits
		if !busy && len(outstanding) > 0 && bottom.CanDeliver() {
			k := verifrt.Choice("complete", len(outstanding)+1)
			if k < len(outstanding) || stalls == 0 {
				if k >= len(outstanding) {
					k = 0
				}
				sh := outstanding[k]
				outstanding = append(outstanding[:k:k], outstanding[k+1:]...)
				if _, isRead := sh.msg.(memprotocol.ReadReq); isRead {
					res := []byte{verifrt.Byte("rdata")}
					reqs[sh.owner].result = res
					rsp := memprotocol.DataReadyRsp{Data: res}
					rsp.ID = timing.GetIDGenerator().Generate()
					rsp.Src, rsp.Dst, rsp.RspTo = spec.BottomUnit, bottom.AsRemote(), sh.msg.Meta().ID
					bottom.Deliver(rsp)
				} else {
					rsp := memprotocol.WriteDoneRsp{}
					rsp.ID = timing.GetIDGenerator().Generate()
					rsp.Src, rsp.Dst, rsp.RspTo = spec.BottomUnit, bottom.AsRemote(), sh.msg.Meta().ID
					bottom.Deliver(rsp)
				}
				answered++
			} else {
				stalls--
			}
			busy = true
		}
		for top.PeekOutgoing() != nil {
			responses = append(responses, top.RetrieveOutgoing())
		}
		if !progress && !busy && injected == nReq && len(outstanding) == 0 {
			break
		}
	}
	verifrt.Assert(injected == nReq && len(accepted) == nReq, "all-requests-accepted")
	verifrt.Assert(len(responses) == nReq, "one-answer-per-request")
	for i, rsp := range responses {
		if i >= nReq {
			break
		}
		r := reqs[i] // requests are accepted in injection order (the Top port is FIFO)
		verifrt.Assert(rsp.Meta().RspTo == r.id, "answers-in-acceptance-order-with-original-id")
		verifrt.Assert(rsp.Meta().Dst == r.src, "answer-goes-to-the-original-requester")
		verifrt.Assert(rsp.Meta().Src == top.AsRemote(), "answer-comes-from-the-top-port")
		if r.isRead {
			d, ok := rsp.(memprotocol.DataReadyRsp)
			verifrt.Assert(ok, "read-answered-with-data")
			if ok {
				verifrt.Assert(len(d.Data) == 1 && len(r.result) == 1 && d.Data[0] == r.result[0], "read-answer-carries-the-lower-units-data-for-that-request")
			}
		} else {
			_, ok := rsp.(memprotocol.WriteDoneRsp)
			verifrt.Assert(ok, "write-answered-with-write-done")
		}
	}
	verifrt.Assert(len(comp.State.Transactions) == 0, "buffer-empty-at-the-end")
	if answered >= 2 {
		verifrt.Cover("two-completions")
	}
	verifrt.Cover("end")
}
