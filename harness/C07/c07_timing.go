package timing

// C07 (fragment) — the sequential ID generator refuses a checkpoint of another kind.

import (
	"encoding/json"
	"io"

	"github.com/sarchlab/akita/v5/internal/verifrt"
)

type c07Buf struct {
	data []byte
	pos  int
}

func (b *c07Buf) Write(p []byte) (int, error) { b.data = append(b.data, p...); return len(p), nil }
func (b *c07Buf) Read(p []byte) (int, error) {
	if b.pos >= len(b.data) {
		return 0, io.EOF
	}
	n := copy(p, b.data[b.pos:])
	b.pos += n
	return n, nil
}

func VerifC07_IDKind() {
	var w c07Buf
	kind := []string{"sequential", "parallel", ""}[verifrt.Choice("kind", 3)]
	next := verifrt.Uint64("next")
	verifrt.Assert(json.NewEncoder(&w).Encode(idGeneratorCheckpoint{Kind: kind, NextID: next}) == nil, "encode")
	g := &sequentialIDGenerator{nextID: 7}
	var err error
	panicked := verifrt.ExpectPanic(func() { err = g.LoadCheckpoint(&c07Buf{data: w.data}) })
	verifrt.Assert(!panicked, "kind-mismatch-never-panics")
	if kind == "sequential" {
		verifrt.Assert(err == nil && g.nextID == next, "matching-kind-loads")
		verifrt.Cover("accepted")
	} else {
		verifrt.Assert(err != nil && g.nextID == 7, "other-kind-refused-and-counter-untouched")
		verifrt.Cover("refused")
	}
	// an empty stream is an error, not a panic
	var e2 error
	p2 := verifrt.ExpectPanic(func() { e2 = g.LoadCheckpoint(&c07Buf{}) })
	verifrt.Assert(!p2 && e2 != nil, "empty-stream-refused")
	verifrt.Cover("end")
}
