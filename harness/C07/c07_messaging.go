package messaging

// C07 (fragment) — a port buffer whose rebuilt capacity differs from the
// checkpoint is refused with an error and left untouched.

import (
	"github.com/sarchlab/akita/v5/internal/verifrt"
	"github.com/sarchlab/akita/v5/queueing"
)

func VerifC07_PortCapacity() {
	rebuilt := verifrt.IntRange("rebuilt-capacity", 0, 1<<20)
	saved := verifrt.IntRange("saved-capacity", 0, 1<<20)
	verifrt.Assume(rebuilt != saved)
	buf := queueing.NewBuffer[Msg]("P.Incoming", rebuilt)
	var err error
	panicked := verifrt.ExpectPanic(func() {
		err = loadBuffer(&buf, bufferCheckpoint{Capacity: saved}, "P", "incoming")
	})
	verifrt.Assert(!panicked, "capacity-mismatch-never-panics")
	verifrt.Assert(err != nil, "capacity-mismatch-refused")
	verifrt.Assert(buf.Size() == 0 && buf.Capacity() == rebuilt, "refused-load-leaves-the-buffer-alone")
	verifrt.Cover("end")
}
