package simulation

// C07 (fragment: the mismatch guards that are plain code) — the entity-set
// coverage check: loading is refused, with an error and never a panic, iff the
// saved and the rebuilt entity sets differ.

import "github.com/sarchlab/akita/v5/internal/verifrt"

type c07Entity struct{ name string }

func (e c07Entity) Name() string { return e.name }

func VerifC07_Coverage() {
	universe := []string{"Engine", "Comp.A", "Comp.A.Port", "Storage"}
	s := &Simulation{}
	payloads := map[string][]byte{}
	same := true
	for _, n := range universe {
		rebuilt := verifrt.Choice("rebuilt", 2) == 1
		saved := verifrt.Choice("saved", 2) == 1
		if rebuilt {
			s.entities = append(s.entities, c07Entity{n})
		}
		if saved {
			payloads[n] = []byte{1}
		}
		if rebuilt != saved {
			same = false
		}
	}
	var err error
	panicked := verifrt.ExpectPanic(func() { err = s.checkpointCoverage(payloads) })
	verifrt.Assert(!panicked, "coverage-check-never-panics")
	verifrt.Assert((err == nil) == same, "refused-iff-entity-sets-differ")
	if same {
		verifrt.Cover("accepted")
	} else {
		verifrt.Cover("refused")
	}
	verifrt.Cover("end")
}
