package timing

// C04 — the parallel engine handles every scheduled event exactly once, never
// starts an event while an event with an earlier time is unfinished, and at one
// instant starts no secondary event before every primary event of that instant
// (including primaries scheduled during the instant) has finished. The handler
// goroutines and the engine loop are interleaved by the cooperative scheduler:
// every schedule within the preemption bound is a path.

import (
	"sync"

	"github.com/sarchlab/akita/v5/internal/verifrt"
)

type vpPRun struct {
	p         *vpProg
	e         *ParallelEngine
	mu        sync.Mutex // protects the ghost state (handlers run concurrently)
	scheduled []bool
	started   []bool
	finished  []bool
	nFinished int
	parent    []int
}

func (r *vpPRun) schedule(id int) {
	r.mu.Lock()
	r.scheduled[id] = true
	r.mu.Unlock()
	r.e.Schedule(vpEvt{id: id, t: r.p.time[id], sec: r.p.sec[id]})
}

func (r *vpPRun) Handle(e Event) error {
	id := e.(vpEvt).id
	p := r.p
	verifrt.Yield() // the worker goroutine may be delayed before the handler does anything
	r.mu.Lock()
	verifrt.Assert(r.scheduled[id] && !r.started[id], "handled-once-and-only-if-scheduled")
	r.started[id] = true
	verifrt.Assert(r.e.CurrentTime() == p.time[id], "clock-equals-event-time")
	okEarlier, okPhase, okSibling := true, true, true
	for o := 0; o < p.n; o++ {
		if o == id || !r.scheduled[o] || r.finished[o] {
			continue
		}
		// o is scheduled and unfinished (pending or running)
		okEarlier = verifrt.And(okEarlier, p.time[o] >= p.time[id])
		if p.sec[id] && !p.sec[o] {
			// sibling: o was scheduled, for this very instant, by a secondary handler of the instant
			sibling := false
			if par := r.parent[o]; par >= 0 && p.sec[par] {
				sibling = p.time[par] == p.time[o]
			}
			differ := p.time[o] != p.time[id]
			okSibling = verifrt.And(okSibling, verifrt.Or(verifrt.Not(sibling), differ))
			okPhase = verifrt.And(okPhase, verifrt.Or(sibling, differ))
		}
	}
	verifrt.Assert(okEarlier, "no-event-starts-while-an-earlier-one-is-unfinished")
	verifrt.Assert(okPhase, "no-secondary-starts-before-every-primary-of-the-instant-finished")
	verifrt.Assert(okSibling, "no-secondary-starts-before-a-primary-scheduled-by-a-sibling-secondary-finished")
	r.mu.Unlock()
	verifrt.Yield()
	for _, c := range p.children[id] {
		r.schedule(c)
	}
	r.mu.Lock()
	r.finished[id] = true
	r.nFinished++
	r.mu.Unlock()
	return nil
}

func VerifC04_Parallel() {
	p := vpDraw(3) // (4 events did not finish in 40 minutes once the exploration was complete: both tiers use 3)
	r := &vpPRun{p: p, e: NewParallelEngine()}
	r.scheduled = make([]bool, p.n)
	r.started = make([]bool, p.n)
	r.finished = make([]bool, p.n)
	r.parent = make([]int, p.n)
	for i := range r.parent {
		r.parent[i] = -1
	}
	for i := 0; i < p.n; i++ {
		for _, c := range p.children[i] {
			r.parent[c] = i
		}
	}
	r.e.RegisterHandler("vp", r)
	for i := 0; i < p.roots; i++ {
		r.schedule(i)
	}
	verifrt.Assert(r.e.Run() == nil, "run")
	for i := 0; i < p.n; i++ {
		verifrt.Assert(r.started[i] && r.finished[i], "every-event-handled")
	}
	verifrt.Assert(r.nFinished == p.n, "exactly-once")
	if p.n >= 3 {
		verifrt.Cover("three-events")
	}
	verifrt.Cover("end")
}
