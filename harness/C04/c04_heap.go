package timing

// C04 — inductive step on the locked event queue the parallel engine uses
// (EventQueueImpl): from an arbitrary valid heap one Push or Pop keeps the heap
// order, so Peek/Pop always hand out the (time, seq) minimum. This covers queues
// with more events than the engine programs reach.

import "github.com/sarchlab/akita/v5/internal/verifrt"

func VerifC04_HeapStep() {
	maxN := verifrt.Bound("heap", 5, 7)
	n := verifrt.Choice("n", maxN+1)
	u := c01Heap(n)
	q := NewEventQueue()
	q.events = append(eventHeap(nil), u.events...)
	q.nextSeq = u.nextSeq
	before := append(eventHeap(nil), q.events...)
	check := func(tag string) {
		v := &unsafeEventQueue{events: q.events, nextSeq: q.nextSeq}
		c01HeapInv(v, tag)
	}
	if verifrt.Choice("op", 2) == 0 {
		t := VTimeInPicoSec(verifrt.Uint64("newt"))
		q.Push(vpEvt{id: 100, t: t})
		check("locked-push")
		verifrt.Assert(q.Len() == n+1 && q.nextSeq == u.nextSeq+1, "locked-push-len-and-seq")
		if q.Len() > 0 {
			head := q.Peek().(vpEvt)
			for _, e := range q.events {
				verifrt.Assert(head.t <= e.event.Time(), "locked-peek-is-the-earliest")
			}
		}
		verifrt.Cover("pushed")
	} else if n > 0 {
		got := q.Pop().(vpEvt)
		check("locked-pop")
		verifrt.Assert(q.Len() == n-1, "locked-pop-len")
		var gotEntry queuedEvent
		for _, b := range before {
			if b.event.(vpEvt).id == got.id {
				gotEntry = b
			}
		}
		for _, b := range before {
			if b.event.(vpEvt).id != got.id {
				verifrt.Assert(c01Less(gotEntry, b), "locked-pop-returns-the-minimum")
			}
		}
		verifrt.Cover("popped")
	}
	verifrt.Cover("end")
}
