package writeback

// C17 (fragment: the flush filter and completion kernels) — a flush restricted
// by address or process selects exactly the matching dirty lines, issues an
// eviction carrying each line's tag / process / dirty mask / cache address,
// and on completion clears the dirty state of exactly those lines, leaves every
// line valid, leaves the others dirty and answers the request once.

import (
	"github.com/sarchlab/akita/v5/internal/verifrt"
	"github.com/sarchlab/akita/v5/mem"
	"github.com/sarchlab/akita/v5/mem/memcontrolprotocol"
	"github.com/sarchlab/akita/v5/mem/vm"
	"github.com/sarchlab/akita/v5/messaging"
	"github.com/sarchlab/akita/v5/modeling"
	"github.com/sarchlab/akita/v5/timing"
)

type c17Snap struct{ valid, dirty bool }

// c17Filter draws a flush request with an arbitrary filter.
func c17Filter(ctrl messaging.Port, tags []uint64) memcontrolprotocol.Req {
	req := memcontrolprotocol.Req{Command: memcontrolprotocol.CmdFlush}
	req.ID, req.Src, req.Dst = verifrt.Uint64("req-id"), "Driver.Port", ctrl.AsRemote()
	switch verifrt.Choice("filter", 4) {
	case 0: // everything
	case 1:
		req.PID = vm.PID(1 + verifrt.Choice("filter-pid", 2))
	case 2: // an address inside a line (not block aligned)
		req.Addresses = []uint64{tags[verifrt.Choice("filter-addr", len(tags))] + uint64(verifrt.Choice("in-line-offset", 2))*17}
	case 3:
		req.PID = vm.PID(1 + verifrt.Choice("filter-pid", 2))
		req.Addresses = []uint64{tags[verifrt.Choice("filter-addr", len(tags))], tags[verifrt.Choice("filter-addr2", len(tags))]}
	}
	return req
}

// c17Round delivers one flush request and follows it to its acknowledgement.
func c17Round(comp *Comp, f *flusher, ctrl messaging.Port, ways int, req memcontrolprotocol.Req, before [2][2]c17Snap) {
	st := &comp.State
	ctrl.Deliver(req)
	verifrt.Assert(f.Tick(), "flush-request-accepted-when-paused") // extractFromPort -> pre-flushing
	verifrt.Assert(f.Tick(), "pre-flush-walk-runs")                // prepareBlockToFlushList -> flushing

	match := func(s, w int) bool {
		b := st.DirectoryState.Sets[s].Blocks[w]
		if !before[s][w].valid || !before[s][w].dirty {
			return false
		}
		if req.PID != 0 && vm.PID(b.PID) != req.PID {
			return false
		}
		if len(req.Addresses) > 0 {
			hit := false
			for _, a := range req.Addresses {
				if a/64*64 == b.Tag {
					hit = true
				}
			}
			if !hit {
				return false
			}
		}
		return true
	}
	want := 0
	for s := 0; s < 2; s++ {
		for w := 0; w < ways; w++ {
			listed := 0
			for _, r := range st.FlusherBlockToEvictRefs {
				if r.SetID == s && r.WayID == w {
					listed++
				}
			}
			if match(s, w) {
				want++
				verifrt.Assert(listed == 1, "matching-dirty-line-selected-exactly-once")
			} else {
				verifrt.Assert(listed == 0, "non-matching-line-not-selected")
			}
		}
	}
	// issue the evictions
	issued := 0
	for guard := 0; guard < 8 && len(st.FlusherBlockToEvictRefs) > 0; guard++ {
		ref := st.FlusherBlockToEvictRefs[0]
		n0 := st.DirToBankBufs[0].Size()
		if !f.processFlush() {
			break
		}
		issued++
		verifrt.Assert(st.DirToBankBufs[0].Size() == n0+1, "one-eviction-transaction-per-selected-line")
		els := st.DirToBankBufs[0].Elements()
		tr := st.Transactions[els[len(els)-1]]
		b := st.DirectoryState.Sets[ref.SetID].Blocks[ref.WayID]
		verifrt.Assert(tr.HasFlush && tr.Action == bankEvict && tr.EvictingAddr == b.Tag && tr.EvictingPID == vm.PID(b.PID) && tr.VictimCacheAddress == b.CacheAddress && tr.BlockSetID == ref.SetID && tr.BlockWayID == ref.WayID, "eviction-carries-the-lines-identity")
		verifrt.Assert(len(tr.EvictingDirtyMask) == len(b.DirtyMask), "eviction-carries-the-dirty-mask")
	}
	verifrt.Assert(issued == want, "every-selected-line-evicted")
	// the acknowledgement is withheld while evictions are in flight
	if want > 0 {
		verifrt.Assert(!f.finalizeFlushing() && ctrl.PeekOutgoing() == nil, "no-acknowledgement-while-evictions-are-in-flight")
		verifrt.Cover("flushed-something")
	}
	// the bank stage / write buffer complete the evictions (played by the harness)
	st.DirToBankBufs[0].Clear()
	for i := range st.Transactions {
		st.Transactions[i].Removed = true
	}
	verifrt.Assert(f.finalizeFlushing(), "flush-finalizes-when-quiescent")
	rsp, ok := ctrl.RetrieveOutgoing().(memcontrolprotocol.Rsp)
	verifrt.Assert(ok && rsp.Command == memcontrolprotocol.CmdFlush && rsp.Success && rsp.RspTo == req.ID && rsp.Dst == "Driver.Port", "flush-acknowledged-once-with-its-id")
	verifrt.Assert(ctrl.PeekOutgoing() == nil, "exactly-one-acknowledgement")
	for s := 0; s < 2; s++ {
		for w := 0; w < ways; w++ {
			b := st.DirectoryState.Sets[s].Blocks[w]
			verifrt.Assert(b.IsValid == before[s][w].valid, "flush-leaves-every-line-valid")
			if match(s, w) {
				verifrt.Assert(!b.IsDirty && b.DirtyMask == nil, "flushed-line-is-clean")
			} else {
				verifrt.Assert(b.IsDirty == before[s][w].dirty, "non-matching-line-keeps-its-dirty-state")
			}
		}
	}
	verifrt.Assert(cacheState(st.CacheState) == cacheStatePaused && !st.HasProcessingFlush, "cache-paused-again-after-the-flush")
}

func VerifC17_Flush() {
	engine := timing.NewSerialEngine()
	spec := DefaultSpec()
	ways := verifrt.Bound("ways", 1, 2)
	spec.WayAssociativity = ways
	spec.TotalByteSize = uint64(2 * ways * 64) // 2 sets x ways x 64-byte blocks
	spec.NumBanks = 1
	spec.NumReqPerCycle = 4
	comp := MakeBuilder().WithRegistrar(modeling.NewStandaloneRegistrar(engine)).WithSpec(spec).
		WithResources(Resources{Storage: mem.NewStorage(256), AddressToPortMapper: &mem.SinglePortMapper{Port: "Mem.Top"}}).Build("L2")
	wire := &vpWire{}
	mk := func(name string) messaging.Port {
		p := messaging.NewPort(comp, 4, 4, "L2."+name)
		p.SetConnection(wire)
		comp.AssignPort(name, p)
		return p
	}
	mk("Top")
	mk("Bottom")
	ctrl := mk("Control")
	f := comp.Middlewares()[1].(*controlMW).flusher
	st := &comp.State
	verifrt.Assert(len(st.DirectoryState.Sets) == 2 && len(st.DirectoryState.Sets[0].Blocks) == ways, "geometry")

	// arbitrary directory contents; nothing locked or being read (the cache is paused/drained)
	var before [2][2]c17Snap
	tags := []uint64{0x40, 0x1000} // block-aligned line addresses
	for s := 0; s < 2; s++ {
		for w := 0; w < ways; w++ {
			b := &st.DirectoryState.Sets[s].Blocks[w]
			b.Tag = tags[verifrt.Choice("tag", len(tags))]
			b.PID = uint32(1 + verifrt.Choice("pid", 2))
			flags := verifrt.Choice("flags", 3) // invalid, valid+clean, valid+dirty
			b.IsValid = flags > 0
			b.IsDirty = flags == 2
			if b.IsDirty {
				b.DirtyMask = []bool{true, false}
			}
			before[s][w] = c17Snap{b.IsValid, b.IsDirty}
		}
	}
	st.CacheState = int(cacheStatePaused)

	req := c17Filter(ctrl, tags)
	c17Round(comp, f, ctrl, ways, req, before)
	verifrt.Cover("end")
}

// VerifC17_FlushWhileRunning: a flush while the cache is running is refused.
func VerifC17_FlushWhileRunning() {
	engine := timing.NewSerialEngine()
	spec := DefaultSpec()
	spec.WayAssociativity = 2
	spec.TotalByteSize = 2 * 2 * 64
	comp := MakeBuilder().WithRegistrar(modeling.NewStandaloneRegistrar(engine)).WithSpec(spec).
		WithResources(Resources{Storage: mem.NewStorage(256), AddressToPortMapper: &mem.SinglePortMapper{Port: "Mem.Top"}}).Build("L2")
	wire := &vpWire{}
	for _, n := range []string{"Top", "Bottom", "Control"} {
		p := messaging.NewPort(comp, 4, 4, "L2."+n)
		p.SetConnection(wire)
		comp.AssignPort(n, p)
	}
	ctrl := comp.GetPortByName("Control")
	f := comp.Middlewares()[1].(*controlMW).flusher
	req := memcontrolprotocol.Req{Command: memcontrolprotocol.CmdFlush}
	req.ID, req.Src, req.Dst = verifrt.Uint64("req-id"), "Driver.Port", ctrl.AsRemote()
	ctrl.Deliver(req)
	verifrt.Assert(f.Tick(), "request-handled")
	rsp, ok := ctrl.RetrieveOutgoing().(memcontrolprotocol.Rsp)
	verifrt.Assert(ok && !rsp.Success && rsp.Error == memcontrolprotocol.ErrMustBePausedOrDrained && rsp.RspTo == req.ID, "flush-while-running-refused")
	verifrt.Assert(len(comp.State.FlusherBlockToEvictRefs) == 0 && !comp.State.HasProcessingFlush, "refused-flush-starts-nothing")
	verifrt.Cover("end")
}

// VerifC17_TwoFlushes: a second flush after lines were dirtied again starts from
// a clean slate: nothing remembered from the first flush is cleaned or evicted.
func VerifC17_TwoFlushes() {
	engine := timing.NewSerialEngine()
	spec := DefaultSpec()
	ways := 1
	spec.WayAssociativity = ways
	spec.TotalByteSize = uint64(2 * ways * 64)
	spec.NumBanks = 1
	spec.NumReqPerCycle = 4
	comp := MakeBuilder().WithRegistrar(modeling.NewStandaloneRegistrar(engine)).WithSpec(spec).
		WithResources(Resources{Storage: mem.NewStorage(256), AddressToPortMapper: &mem.SinglePortMapper{Port: "Mem.Top"}}).Build("L2")
	wire := &vpWire{}
	mk := func(name string) messaging.Port {
		p := messaging.NewPort(comp, 4, 4, "L2."+name)
		p.SetConnection(wire)
		comp.AssignPort(name, p)
		return p
	}
	mk("Top")
	mk("Bottom")
	ctrl := mk("Control")
	f := comp.Middlewares()[1].(*controlMW).flusher
	st := &comp.State
	tags := []uint64{0x40, 0x1000}
	var before [2][2]c17Snap
	for s := 0; s < 2; s++ {
		b := &st.DirectoryState.Sets[s].Blocks[0]
		b.Tag, b.PID, b.IsValid, b.IsDirty, b.DirtyMask = tags[s], uint32(1+s), true, true, []bool{true, false}
		before[s][0] = c17Snap{true, true}
	}
	st.CacheState = int(cacheStatePaused)
	// first flush: arbitrary filter
	c17Round(comp, f, ctrl, ways, c17Filter(ctrl, tags), before)
	// some lines are written again
	for s := 0; s < 2; s++ {
		b := &st.DirectoryState.Sets[s].Blocks[0]
		if verifrt.Choice("dirtied-again", 2) == 1 {
			b.IsDirty, b.DirtyMask = true, []bool{false, true}
		}
		before[s][0] = c17Snap{b.IsValid, b.IsDirty}
	}
	// second flush: arbitrary filter
	c17Round(comp, f, ctrl, ways, c17Filter(ctrl, tags), before)
	verifrt.Cover("end")
}
