package writeback

// C17 (assembled: one write-back cache over a lower memory played by the
// harness) — full-line writes to more lines than the set holds force dirty
// evictions while the lower memory acknowledges write-backs late and at most one
// eviction may be in flight; after the traffic the cache is drained and flushed.
// Every acknowledged write is then in the backing memory.

import (
	"github.com/sarchlab/akita/v5/internal/verifrt"
	"github.com/sarchlab/akita/v5/mem"
	"github.com/sarchlab/akita/v5/mem/memcontrolprotocol"
	"github.com/sarchlab/akita/v5/mem/memprotocol"
	"github.com/sarchlab/akita/v5/messaging"
	"github.com/sarchlab/akita/v5/modeling"
	"github.com/sarchlab/akita/v5/timing"
)

func VerifC17_Eviction() {
	engine := timing.NewSerialEngine()
	spec := DefaultSpec()
	spec.WayAssociativity = 2
	spec.TotalByteSize = 2 * 64
	spec.NumBanks = 1
	spec.BankLatency = 1
	spec.DirLatency = 0
	spec.NumMSHREntry = 4
	spec.NumReqPerCycle = 1
	spec.MaxInflightEviction = 1 + verifrt.Choice("max-inflight-eviction", 2)
	comp := MakeBuilder().WithRegistrar(modeling.NewStandaloneRegistrar(engine)).WithSpec(spec).
		WithResources(Resources{Storage: mem.NewStorage(128), AddressToPortMapper: &mem.SinglePortMapper{Port: "Mem.Top"}}).Build("L2")
	wire := &vpWire{}
	mk := func(name string) messaging.Port {
		p := messaging.NewPort(comp, 4, 4, "L2."+name)
		p.SetConnection(wire)
		comp.AssignPort(name, p)
		return p
	}
	top := mk("Top")
	bottom := mk("Bottom")
	ctrl := mk("Control")

	const nLines = 4
	var lower, flat [nLines][64]byte
	ackDelay := 1 + 11*verifrt.Choice("write-ack-delay", 2)
	type pendT struct {
		due int
		msg messaging.Msg
	}
	var pend []pendT
	n := verifrt.Bound("writes", 4, 5)
	lines := make([]int, n)
	for i := range lines {
		lines[i] = i % nLines
		if i >= 2 {
			lines[i] = verifrt.Choice("line", nLines)
		}
	}
	ids := make([]uint64, n)
	acked := 0
	ctrlAcks := 0
	tick := 0
	step := func() {
		comp.Tick()
		for bottom.PeekOutgoing() != nil {
			switch m := bottom.RetrieveOutgoing().(type) {
			case memprotocol.ReadReq:
				l, off := int(m.Address/64), int(m.Address%64)
				rsp := memprotocol.DataReadyRsp{Data: append([]byte(nil), lower[l][off:off+int(m.AccessByteSize)]...)}
				rsp.ID, rsp.Src, rsp.Dst, rsp.RspTo = timing.GetIDGenerator().Generate(), "Mem.Top", m.Src, m.ID
				pend = append(pend, pendT{tick + 1, rsp})
			case memprotocol.WriteReq:
				l, off := int(m.Address/64), int(m.Address%64)
				for k := range m.Data {
					if m.DirtyMask == nil || m.DirtyMask[k] {
						lower[l][off+k] = m.Data[k]
					}
				}
				rsp := memprotocol.WriteDoneRsp{}
				rsp.ID, rsp.Src, rsp.Dst, rsp.RspTo = timing.GetIDGenerator().Generate(), "Mem.Top", m.Src, m.ID
				pend = append(pend, pendT{tick + ackDelay, rsp})
			}
		}
		// responses are delivered in order of their due time
		for i := 0; i < len(pend); i++ {
			if pend[i].due <= tick && bottom.CanDeliver() {
				bottom.Deliver(pend[i].msg)
				pend = append(pend[:i:i], pend[i+1:]...)
				i--
			}
		}
		for top.PeekOutgoing() != nil {
			rsp := top.RetrieveOutgoing()
			_, ok := rsp.(memprotocol.WriteDoneRsp)
			verifrt.Assert(ok, "write-answered-with-write-done")
			acked++
		}
		for ctrl.PeekOutgoing() != nil {
			r, ok := ctrl.RetrieveOutgoing().(memcontrolprotocol.Rsp)
			verifrt.Assert(ok && r.Success, "control-request-acknowledged-with-success")
			ctrlAcks++
		}
		tick++
	}
	sent := 0
	for k := 0; k < 200 && acked < n; k++ {
		if sent < n && sent-acked < 2 && top.CanDeliver() {
			data := make([]byte, 64)
			for j := range data {
				data[j] = byte(16*(sent+1) + j%5)
			}
			data[0] = verifrt.Byte("data")
			m := memprotocol.WriteReq{Address: uint64(lines[sent]) * 64, Data: data}
			ids[sent] = timing.GetIDGenerator().Generate()
			m.ID, m.Src, m.Dst = ids[sent], "Core.Port", top.AsRemote()
			top.Deliver(m)
			copy(flat[lines[sent]][:], data)
			sent++
		}
		step()
	}
	verifrt.Assert(acked == n, "every-write-acknowledged")
	control := func(cmd memcontrolprotocol.Command) {
		m := memcontrolprotocol.Req{Command: cmd}
		m.ID, m.Src, m.Dst = timing.GetIDGenerator().Generate(), "Driver.Port", ctrl.AsRemote()
		ctrl.Deliver(m)
		want := ctrlAcks + 1
		for k := 0; k < 200 && ctrlAcks < want; k++ {
			step()
		}
		verifrt.Assert(ctrlAcks == want, "control-request-acknowledged")
	}
	control(memcontrolprotocol.CmdDrain)
	control(memcontrolprotocol.CmdFlush)
	for k := 0; k < 30; k++ {
		step() // let trailing acknowledgements arrive
	}
	for l := 0; l < nLines; l++ {
		same := true
		for j := 0; j < 64; j++ {
			same = verifrt.And(same, lower[l][j] == flat[l][j])
		}
		verifrt.Assert(same, "after-drain-and-flush-the-backing-memory-holds-every-acknowledged-write")
	}
	verifrt.Cover("end")
}
