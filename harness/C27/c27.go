package mmu

// C27 — MMU auto-allocation never aliases physical memory (and, for C25, the
// response carries the page the table maps the request to).
// The real MMU (real builder, real page table) is ticked directly with
// translation requests; the page table is pre-populated with arbitrary
// aligned pages and the allocation cursor is arbitrary.

import (
	"github.com/sarchlab/akita/v5/internal/verifrt"
	"github.com/sarchlab/akita/v5/mem/vm"
	"github.com/sarchlab/akita/v5/mem/vm/vmprotocol"
	"github.com/sarchlab/akita/v5/messaging"
	"github.com/sarchlab/akita/v5/modeling"
	"github.com/sarchlab/akita/v5/timing"
)

const c27Page = uint64(4096)

func c27Aligned(name string) uint64 {
	v := verifrt.Uint64Range(name, 0, 1<<50)
	verifrt.Assume(v&(c27Page-1) == 0)
	return v
}

func VerifC27_AutoAlloc() {
	engine := timing.NewSerialEngine()
	pt := vm.NewPageTable(12)
	spec := DefaultSpec()
	spec.AutoPageAllocation = true
	spec.Latency = verifrt.Choice("latency", 2)
	spec.MaxRequestsInFlight = 4
	comp := MakeBuilder().WithRegistrar(modeling.NewStandaloneRegistrar(engine)).WithSpec(spec).WithResources(Resources{PageTable: pt}).Build("MMU")
	wire := &vpWire{}
	mk := func(name string, capN int) messaging.Port {
		p := messaging.NewPort(comp, capN, capN, "MMU."+name)
		p.SetConnection(wire)
		comp.AssignPort(name, p)
		return p
	}
	top := mk("Top", 4)
	mk("Control", 1)

	type entry struct {
		pid   vm.PID
		vaddr uint64
		paddr uint64
		auto  bool
	}
	var pages []entry
	nPre := verifrt.Choice("preinserted", 3)
	for i := 0; i < nPre; i++ {
		e := entry{pid: vm.PID(1 + verifrt.Choice("pid", 2)), vaddr: c27Aligned("vaddr"), paddr: c27Aligned("paddr")}
		for _, o := range pages {
			verifrt.Assume(!(o.pid == e.pid && o.vaddr == e.vaddr)) // a table holds one entry per (process, page)
			verifrt.Assume(o.paddr != e.paddr)                       // pre-inserted pages do not alias each other
		}
		pt.Insert(vm.Page{PID: e.pid, VAddr: e.vaddr, PAddr: e.paddr, PageSize: c27Page, Valid: true})
		pages = append(pages, e)
	}
	comp.State.NextPhysicalPage = verifrt.Uint64Range("cursor", 0, 1<<50) // aligned or not
	cursor0 := comp.State.NextPhysicalPage

	nReq := verifrt.Bound("requests", 2, 3)
	type req struct {
		id    uint64
		pid   vm.PID
		vaddr uint64
	}
	reqs := make([]req, nReq)
	for i := range reqs {
		reqs[i] = req{id: timing.GetIDGenerator().Generate(), pid: vm.PID(1 + verifrt.Choice("pid", 2)), vaddr: verifrt.Uint64Range("req-vaddr", 0, 1<<50)}
	}
	sent := 0
	got := 0
	for tick := 0; tick < 12; tick++ {
		// up to two requests may arrive in the same tick
		for k := 0; k < 2 && sent < nReq && top.CanDeliver(); k++ {
			if k == 1 && verifrt.Choice("same-tick", 2) == 0 {
				break
			}
			r := reqs[sent]
			m := vmprotocol.TranslationReq{VAddr: r.vaddr, PID: r.pid, DeviceID: 1}
			m.ID, m.Src, m.Dst = r.id, "TLB.Bottom", top.AsRemote()
			top.Deliver(m)
			sent++
		}
		comp.Tick()
		for top.PeekOutgoing() != nil {
			rsp := top.RetrieveOutgoing().(vmprotocol.TranslationRsp)
			got++
			var r *req
			for i := range reqs {
				if reqs[i].id == rsp.RspTo {
					r = &reqs[i]
				}
			}
			verifrt.Assert(r != nil && rsp.Dst == "TLB.Bottom", "response-answers-a-request")
			if r == nil {
				continue
			}
			vpage := r.vaddr &^ (c27Page - 1)
			verifrt.Assert(rsp.Page.PID == r.pid && rsp.Page.VAddr == vpage && rsp.Page.Valid && rsp.Page.PageSize == c27Page, "response-carries-the-page-of-the-request")
			// it is the page the table maps (pid, vpage) to
			tp, found := pt.Find(r.pid, r.vaddr)
			verifrt.Assert(found && tp == rsp.Page, "response-page-is-the-table-entry")
			known := false
			for _, o := range pages {
				if o.pid == r.pid && o.vaddr == vpage {
					known = true
					verifrt.Assert(o.paddr == rsp.Page.PAddr, "one-mapping-per-process-and-page")
				}
			}
			if !known {
				// a freshly auto-allocated page: aligned, and disjoint from every other page
				verifrt.Assert(rsp.Page.PAddr&(c27Page-1) == 0, "auto-allocated-page-is-aligned")
				for _, o := range pages {
					verifrt.Assert(o.paddr != rsp.Page.PAddr, "auto-allocated-page-overlaps-no-other-page")
				}
				pages = append(pages, entry{pid: r.pid, vaddr: vpage, paddr: rsp.Page.PAddr, auto: true})
				verifrt.Cover("auto-allocated")
			} else {
				verifrt.Cover("existing-page")
			}
		}
	}
	verifrt.Assert(got == nReq, "every-request-answered")
	verifrt.Assert(comp.State.NextPhysicalPage >= cursor0&^(c27Page-1), "cursor-only-moves-forward")
	verifrt.Cover("end")
}
