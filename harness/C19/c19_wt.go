package writethroughcache

// C19 (write-through / write-around / write-evict cache directory) — from an arbitrary directory state
// (symbolic lock flags, reader counts, valid/dirty bits, arbitrary recency
// order) one request (read, full-line write, partial write; hit or miss) is
// processed by the real directory stage. A block that is locked or has readers
// is never chosen for replacement, reader counts only grow by the request's
// own read, and the set stays well-formed.

import (
	"github.com/sarchlab/akita/v5/internal/verifrt"
	"github.com/sarchlab/akita/v5/mem"
	"github.com/sarchlab/akita/v5/mem/cache"
	"github.com/sarchlab/akita/v5/mem/memprotocol"
	"github.com/sarchlab/akita/v5/mem/vm"
	"github.com/sarchlab/akita/v5/messaging"
	"github.com/sarchlab/akita/v5/modeling"
	"github.com/sarchlab/akita/v5/timing"
)

func VerifC19_WTDir() {
	engine := timing.NewSerialEngine()
	spec := DefaultSpec()
	ways := 2 + verifrt.Choice("ways", verifrt.Bound("way-choices", 1, 2)) // 2 (quick) / 2..3 (thorough)
	spec.WayAssociativity = ways
	spec.TotalByteSize = uint64(ways * 64) // one set
	spec.NumBanks = 1
	spec.NumReqPerCycle = 1
	spec.DirLatency = 1
	spec.WritePolicyType = []string{"write-around", "write-evict", "write-through"}[verifrt.Choice("write-policy", 3)]
	comp := MakeBuilder().WithRegistrar(modeling.NewStandaloneRegistrar(engine)).WithSpec(spec).
		WithResources(Resources{Storage: mem.NewStorage(1024), AddressMapper: &mem.SinglePortMapper{Port: "Mem.Top"}}).Build("L1")
	wire := &vpWire{}
	mk := func(name string) messaging.Port {
		p := messaging.NewPort(comp, 4, 4, "L1."+name)
		p.SetConnection(wire)
		comp.AssignPort(name, p)
		return p
	}
	top := mk("Top")
	mk("Bottom")
	mk("Control")
	st := &comp.State
	built := comp.Spec()
	verifrt.Assert(len(st.DirectoryState.Sets) == 1 && len(st.DirectoryState.Sets[0].Blocks) == ways, "geometry")
	set := &st.DirectoryState.Sets[0]

	// arbitrary set contents: distinct lines, symbolic flags
	lines := []uint64{0x000, 0x040, 0x080, 0x0c0}
	type snap struct {
		tag          uint64
		pid          uint32
		valid, dirty bool
		locked       bool
		readers      int
		busy         bool
	}
	before := make([]snap, ways)
	for w := 0; w < ways; w++ {
		b := &set.Blocks[w]
		b.Tag = lines[w]
		b.PID = 1
		flags := verifrt.Choice("flags", 2) // invalid, valid (these caches hold no dirty lines)
		b.IsValid = flags > 0
		b.IsDirty = false
		b.IsLocked = verifrt.Choice("locked", 2) == 1
		b.ReadCount = verifrt.Choice("readers", 2)
		if b.IsDirty {
			b.DirtyMask = make([]bool, 64)
			b.DirtyMask[0] = true
		}
		before[w] = snap{b.Tag, b.PID, b.IsValid, b.IsDirty, b.IsLocked, b.ReadCount, b.IsLocked || b.ReadCount > 0}
	}
	// arbitrary recency order: a rotation or the reverse of the default order
	order := make([]int, ways)
	switch rot := verifrt.Choice("order", ways+1); {
	case rot == ways:
		for i := range order {
			order[i] = ways - 1 - i
		}
	default:
		for i := range order {
			order[i] = (i + rot) % ways
		}
	}
	set.LRUOrder = order

	// one request: a line held by a way, or a line not in the set (miss)
	target := lines[verifrt.Choice("line", ways+1)]
	kind := verifrt.Choice("kind", 3) // read, full-line write, partial write
	id := timing.GetIDGenerator().Generate()
	if kind == 0 {
		m := memprotocol.ReadReq{Address: target, AccessByteSize: 4, PID: vm.PID(1)}
		m.ID, m.Src, m.Dst = id, "Core.Port", top.AsRemote()
		top.Deliver(m)
	} else {
		n := 64
		if kind == 2 {
			n = 4
		}
		data := make([]byte, n)
		m := memprotocol.WriteReq{Address: target, Data: data, PID: vm.PID(1)}
		m.ID, m.Src, m.Dst = id, "Core.Port", top.AsRemote()
		top.Deliver(m)
	}
	mw := comp.Middlewares()[1].(*pipelineMW)
	verifrt.Assert(mw.intakeStage.Tick(), "request-parsed")
	mw.directoryStage.Tick()
	mw.directoryStage.Tick()
	mw.directoryStage.Tick()
	progress := st.DirPostBuf.Size() == 0 && st.DirBuf.Size() == 0 && len(st.DirPipeline.Stages()) == 0 // the request left the directory

	// the recency order is still a permutation of the ways
	seen := make([]int, ways)
	verifrt.Assert(len(set.LRUOrder) == ways, "recency-order-lists-every-way")
	for _, w := range set.LRUOrder {
		if w >= 0 && w < ways {
			seen[w]++
		}
	}
	replaced := 0
	for w := 0; w < ways; w++ {
		verifrt.Assert(seen[w] == 1, "recency-order-lists-every-way-exactly-once")
		b := &set.Blocks[w]
		verifrt.Assert(b.ReadCount >= 0, "reader-count-never-negative")
		changedIdentity := b.Tag != before[w].tag || b.PID != before[w].pid
		newlyLocked := b.IsLocked && !before[w].locked
		if before[w].busy {
			// a locked block, or one with readers, is never chosen for replacement or written
			verifrt.Assert(!changedIdentity && b.IsValid == before[w].valid && b.IsDirty == before[w].dirty, "busy-block-is-never-replaced")
			verifrt.Assert(!newlyLocked, "busy-block-is-never-taken-for-a-fill-or-write")
			if before[w].locked {
				verifrt.Assert(b.ReadCount == before[w].readers, "locked-block-gets-no-new-reader")
			}
		}
		if changedIdentity {
			replaced++
		}
		// readers only ever grow by this request's read of that very line
		if b.ReadCount != before[w].readers {
			verifrt.Assert(kind == 0 && b.ReadCount == before[w].readers+1 && before[w].valid && before[w].tag == target && !before[w].locked, "reader-count-grows-only-by-a-read-hit")
		}
		for o := 0; o < w; o++ {
			ob := &set.Blocks[o]
			verifrt.Assert(!(ob.IsValid && b.IsValid && ob.Tag == b.Tag && ob.PID == b.PID), "no-two-valid-blocks-hold-one-line")
		}
		if b.IsValid {
			verifrt.Assert(cache.DirectorySetID(b.Tag, 64, built.NumSets) == 0, "valid-block-sits-in-its-set")
		}
	}
	verifrt.Assert(replaced <= 1, "at-most-one-block-replaced-per-request")
	if !progress {
		for w := 0; w < ways; w++ {
			b := &set.Blocks[w]
			verifrt.Assert(b.Tag == before[w].tag && b.IsLocked == before[w].locked && b.ReadCount == before[w].readers && b.IsValid == before[w].valid, "stalled-request-changes-nothing")
		}
		verifrt.Cover("stalled")
	}
	if replaced == 1 {
		verifrt.Cover("replaced")
	}
	verifrt.Cover("end")
}
