package cache

// C19 (fragment: the shared directory kernel) — cache directories stay
// well-formed: each set lists each way exactly once in its recency order, a
// visit makes a way most recent, the victim is the least-recent block that is
// neither locked nor being read, lookup finds exactly the valid block holding
// that line for that process.

import (
	"github.com/sarchlab/akita/v5/internal/verifrt"
	"github.com/sarchlab/akita/v5/mem/vm"
)

const c19Block = 64

// c19Dir draws an arbitrary directory satisfying the representation
// invariant: LRUOrder of every set is a permutation of its ways.
func c19Dir(maxWays int) (*DirectoryState, int, int) {
	numSets := 1 + verifrt.Choice("sets", 2)
	ways := 1 + verifrt.Choice("ways", maxWays)
	ds := &DirectoryState{}
	DirectoryReset(ds, numSets, ways, c19Block)
	for s := 0; s < numSets; s++ {
		set := &ds.Sets[s]
		// arbitrary permutation of the recency order
		rest := append([]int(nil), set.LRUOrder...)
		set.LRUOrder = set.LRUOrder[:0]
		for len(rest) > 0 {
			k := verifrt.Choice("lru-pick", len(rest))
			set.LRUOrder = append(set.LRUOrder, rest[k])
			rest = append(rest[:k:k], rest[k+1:]...)
		}
		for w := range set.Blocks {
			b := &set.Blocks[w]
			b.Tag = verifrt.Uint64("tag")
			b.PID = verifrt.Uint32("pid")
			b.IsValid = verifrt.Bool("valid")
			b.IsDirty = verifrt.Bool("dirty")
			b.IsLocked = verifrt.Bool("locked")
			b.ReadCount = verifrt.IntRange("readcount", 0, 1<<20)
		}
	}
	return ds, numSets, ways
}

func c19Perm(set *SetState, ways int, tag string) {
	verifrt.Assert(len(set.LRUOrder) == ways && len(set.Blocks) == ways, tag+"-lists-every-way")
	seen := make([]bool, ways)
	for _, w := range set.LRUOrder {
		verifrt.Assert(w >= 0 && w < ways, tag+"-way-in-range")
		if w >= 0 && w < ways {
			verifrt.Assert(!seen[w], tag+"-each-way-exactly-once")
			seen[w] = true
		}
	}
}

func VerifC19_Reset() {
	numSets := 1 + verifrt.Choice("sets", 3)
	ways := 1 + verifrt.Choice("ways", 4)
	ds := &DirectoryState{}
	DirectoryReset(ds, numSets, ways, c19Block)
	verifrt.Assert(len(ds.Sets) == numSets, "reset-set-count")
	for s := range ds.Sets {
		c19Perm(&ds.Sets[s], ways, "reset")
		for w, b := range ds.Sets[s].Blocks {
			verifrt.Assert(b.SetID == s && b.WayID == w && !b.IsValid && !b.IsLocked && b.ReadCount == 0, "reset-block-identity-and-flags")
			verifrt.Assert(b.CacheAddress == uint64(s*ways+w)*c19Block, "reset-cache-address")
		}
	}
	verifrt.Cover("end")
}

func VerifC19_Visit() {
	ds, numSets, ways := c19Dir(verifrt.Bound("ways", 4, 5))
	s := verifrt.Choice("set", numSets)
	w := verifrt.Choice("way", ways)
	before := append([]int(nil), ds.Sets[s].LRUOrder...)
	DirectoryVisit(ds, s, w)
	set := &ds.Sets[s]
	c19Perm(set, ways, "visit")
	verifrt.Assert(set.LRUOrder[len(set.LRUOrder)-1] == w, "visit-makes-the-way-most-recent")
	j := 0
	for _, x := range before {
		if x == w {
			continue
		}
		verifrt.Assert(set.LRUOrder[j] == x, "visit-keeps-the-others-in-order")
		j++
	}
	for o := 0; o < numSets; o++ {
		if o != s {
			c19Perm(&ds.Sets[o], ways, "visit-other-set")
		}
	}
	verifrt.Cover("end")
}

func VerifC19_Victim() {
	ds, numSets, ways := c19Dir(verifrt.Bound("ways", 4, 5))
	// concrete line addresses here (the set-index hash with a symbolic address is
	// exercised by VerifC19_Lookup; in every feasibility query it is expensive)
	addr := []uint64{0, 64, 4096, 1 << 40}[verifrt.Choice("addr", 4)]
	setID, wayID := DirectoryFindVictim(ds, numSets, c19Block, addr)
	verifrt.Assert(setID == DirectorySetID(addr, c19Block, numSets), "victim-comes-from-the-set-the-line-maps-to")
	verifrt.Assert(setID >= 0 && setID < numSets && wayID >= 0 && wayID < ways, "victim-in-range")
	set := &ds.Sets[setID]
	eligible := func(w int) bool { return verifrt.And(!set.Blocks[w].IsLocked, set.Blocks[w].ReadCount == 0) }
	any := false
	for _, w := range set.LRUOrder {
		any = verifrt.Or(any, eligible(w))
	}
	if any {
		verifrt.Assert(eligible(wayID), "a-locked-or-read-block-is-never-the-victim-when-another-is-available")
		// and it is the least recent such block
		for _, w := range set.LRUOrder {
			if w == wayID {
				break
			}
			verifrt.Assert(!eligible(w), "victim-is-the-least-recent-eligible-block")
		}
		verifrt.Cover("eligible-victim")
	} else {
		verifrt.Assert(wayID == set.LRUOrder[0], "no-eligible-block-returns-the-least-recent-one-for-the-caller-to-reject")
		verifrt.Cover("no-eligible-victim")
	}
	verifrt.Cover("end")
}

func VerifC19_Lookup() {
	ds, numSets, ways := c19Dir(verifrt.Bound("ways", 3, 4))
	addr := verifrt.Uint64("addr")
	pid := vm.PID(verifrt.Uint32("lookup-pid"))
	setID, wayID, found := DirectoryLookup(ds, numSets, c19Block, pid, addr)
	verifrt.Assert(setID == DirectorySetID(addr, c19Block, numSets), "lookup-searches-the-set-the-line-maps-to")
	set := &ds.Sets[setID]
	match := func(w int) bool {
		b := set.Blocks[w]
		return verifrt.And(b.IsValid, verifrt.And(b.Tag == addr, vm.PID(b.PID) == pid))
	}
	exists := false
	for w := 0; w < ways; w++ {
		exists = verifrt.Or(exists, match(w))
	}
	verifrt.Assert(found == exists, "lookup-hits-iff-a-valid-block-holds-the-line-for-the-process")
	if found {
		verifrt.Assert(wayID >= 0 && wayID < ways && match(wayID), "lookup-returns-a-matching-block")
		verifrt.Cover("hit")
	} else {
		verifrt.Assert(wayID == -1, "lookup-miss-returns-no-way")
		verifrt.Cover("miss")
	}
	verifrt.Cover("end")
}
