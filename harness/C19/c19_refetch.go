package writeback

// C19 (assembled scenario) — two or three reads of the same line at different
// offsets reach a write-back cache at arbitrary distances while the line is
// being fetched; at every cycle and at the end no two valid blocks hold the
// same line, reader counts are never negative and every read is answered once.

import (
	"github.com/sarchlab/akita/v5/internal/verifrt"
	"github.com/sarchlab/akita/v5/mem"
	"github.com/sarchlab/akita/v5/mem/memprotocol"
	"github.com/sarchlab/akita/v5/messaging"
	"github.com/sarchlab/akita/v5/modeling"
	"github.com/sarchlab/akita/v5/timing"
)

func VerifC19_Refetch() {
	engine := timing.NewSerialEngine()
	spec := DefaultSpec()
	spec.WayAssociativity = 2
	spec.TotalByteSize = 2 * 64
	spec.NumBanks = 1
	spec.BankLatency = 1 + verifrt.Choice("bank-latency", 3)
	spec.DirLatency = 0
	spec.NumMSHREntry = 4
	spec.NumReqPerCycle = 1
	comp := MakeBuilder().WithRegistrar(modeling.NewStandaloneRegistrar(engine)).WithSpec(spec).
		WithResources(Resources{Storage: mem.NewStorage(128), AddressToPortMapper: &mem.SinglePortMapper{Port: "Mem.Top"}}).Build("L2")
	wire := &vpWire{}
	mk := func(name string) messaging.Port {
		p := messaging.NewPort(comp, 4, 4, "L2."+name)
		p.SetConnection(wire)
		comp.AssignPort(name, p)
		return p
	}
	top := mk("Top")
	bottom := mk("Bottom")
	mk("Control")
	memLat := 1 + 2*verifrt.Choice("memory-latency", 2)
	n := verifrt.Bound("reads", 2, 3)
	sendAt := make([]int, n)
	for i := 1; i < n; i++ {
		sendAt[i] = sendAt[i-1] + verifrt.Choice("gap", 8)
	}
	type pendT struct {
		due int
		msg messaging.Msg
	}
	var pend []pendT
	sent, answered, fetches := 0, 0, 0
	st := &comp.State
	for tick := 0; tick < 60; tick++ {
		if sent < n && tick >= sendAt[sent] && top.CanDeliver() {
			m := memprotocol.ReadReq{Address: uint64(8 * sent), AccessByteSize: 4, PID: 1}
			m.ID, m.Src, m.Dst = timing.GetIDGenerator().Generate(), "Core.Port", top.AsRemote()
			top.Deliver(m)
			sent++
		}
		comp.Tick()
		for bottom.PeekOutgoing() != nil {
			q := bottom.RetrieveOutgoing().(memprotocol.ReadReq)
			fetches++
			rsp := memprotocol.DataReadyRsp{Data: make([]byte, q.AccessByteSize)}
			rsp.ID, rsp.Src, rsp.Dst, rsp.RspTo = timing.GetIDGenerator().Generate(), "Mem.Top", q.Src, q.ID
			pend = append(pend, pendT{tick + memLat, rsp})
		}
		for len(pend) > 0 && pend[0].due <= tick && bottom.CanDeliver() {
			bottom.Deliver(pend[0].msg)
			pend = pend[1:]
		}
		for top.PeekOutgoing() != nil {
			top.RetrieveOutgoing()
			answered++
		}
		// directory invariants at every cycle
		for s := range st.DirectoryState.Sets {
			bl := st.DirectoryState.Sets[s].Blocks
			for i := range bl {
				verifrt.Assert(bl[i].ReadCount >= 0, "reader-count-never-negative")
				for j := 0; j < i; j++ {
					verifrt.Assert(!(bl[i].IsValid && bl[j].IsValid && bl[i].Tag == bl[j].Tag && bl[i].PID == bl[j].PID), "no-two-valid-blocks-hold-one-line")
				}
			}
		}
	}
	verifrt.Assert(answered == n, "every-read-answered")
	verifrt.Assert(fetches == 1, "one-line-is-fetched-once")
	verifrt.Cover("end")
}
