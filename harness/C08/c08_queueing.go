package queueing

// C08 (fragment: the hand-written codecs) — Buffer and Pipeline survive their
// JSON round trip: MarshalJSON/UnmarshalJSON copy every field in both
// directions, including nil versus empty element slices. encoding/json itself
// is replaced by the contract stub (DESIGN §2.5); what is decided is the field
// mapping written in buffer_json.go / pipeline_json.go.

import "github.com/sarchlab/akita/v5/internal/verifrt"

type c08Item struct {
	A uint64 `json:"a"`
	B int32  `json:"b"`
	S string `json:"s"`
}

func VerifC08_Buffer() {
	capN := verifrt.IntRange("cap", 0, 1<<30)
	b := NewBuffer[c08Item]("state.buf", capN)
	n := verifrt.Choice("n", 4)
	switch verifrt.Choice("shape", 3) {
	case 0: // nil elements
	case 1: // empty but non-nil
		b.elements = []c08Item{}
		n = 0
	case 2:
		for i := 0; i < n; i++ {
			b.elements = append(b.elements, c08Item{A: verifrt.Uint64("a"), B: verifrt.Int32("b"), S: "s"})
		}
	}
	data, err := b.MarshalJSON()
	verifrt.Assert(err == nil, "marshal-succeeds")
	var r Buffer[c08Item]
	r.name, r.cap = "garbage", 12345
	r.elements = []c08Item{{A: 1}}
	verifrt.Assert(r.UnmarshalJSON(data) == nil, "unmarshal-succeeds")
	verifrt.Assert(r.name == b.name && r.cap == b.cap, "name-and-capacity-survive")
	verifrt.Assert(len(r.elements) == len(b.elements), "element-count-survives")
	verifrt.Assert((r.elements == nil) == (b.elements == nil), "nil-versus-empty-survives")
	for i := range b.elements {
		if i < len(r.elements) {
			verifrt.Assert(r.elements[i] == b.elements[i], "elements-survive-in-order")
		}
	}
	verifrt.Assert(r.Size() == b.Size() && r.Capacity() == b.Capacity() && r.CanPush() == b.CanPush(), "behaviour-survives")
	if n > 0 {
		verifrt.Cover("non-empty")
	}
	verifrt.Cover("end")
}

func VerifC08_Pipeline() {
	w := verifrt.IntRange("width", 1, 1<<20)
	s := verifrt.IntRange("stages", 1, 1<<20)
	p := NewPipeline[c08Item](w, s)
	n := verifrt.Choice("n", 4)
	if verifrt.Choice("empty-non-nil", 2) == 1 {
		p.stages = []PipelineStage[c08Item]{}
		n = 0
	}
	for i := 0; i < n; i++ {
		p.stages = append(p.stages, PipelineStage[c08Item]{Lane: verifrt.Int("lane"), Stage: verifrt.Int("stage"), CycleLeft: verifrt.Int("left"), Item: c08Item{A: verifrt.Uint64("a"), S: "x"}})
	}
	data, err := p.MarshalJSON()
	verifrt.Assert(err == nil, "marshal-succeeds")
	r := NewPipeline[c08Item](7, 7)
	r.stages = []PipelineStage[c08Item]{{Lane: 3}}
	verifrt.Assert(r.UnmarshalJSON(data) == nil, "unmarshal-succeeds")
	verifrt.Assert(r.width == p.width && r.numStages == p.numStages, "geometry-survives")
	verifrt.Assert(len(r.stages) == len(p.stages) && (r.stages == nil) == (p.stages == nil), "records-count-and-nilness-survive")
	for i := range p.stages {
		if i < len(r.stages) {
			verifrt.Assert(r.stages[i] == p.stages[i], "records-survive-in-order")
		}
	}
	if n > 0 {
		verifrt.Cover("non-empty")
	}
	verifrt.Cover("end")
}

// VerifC08_Embedded: a Buffer embedded by value in a component State survives
// a Marshal of the whole State (its MarshalJSON has a value receiver and must
// be picked up).
type c08State struct {
	Count int              `json:"count"`
	Buf   Buffer[c08Item]  `json:"buf"`
	Pipe  Pipeline[c08Item] `json:"pipe"`
}

func VerifC08_Embedded() {
	var st c08State
	st.Count = verifrt.Int("count")
	st.Buf = NewBuffer[c08Item]("b", 3)
	st.Buf.elements = append(st.Buf.elements, c08Item{A: verifrt.Uint64("a")})
	st.Pipe = NewPipeline[c08Item](2, 3)
	st.Pipe.stages = append(st.Pipe.stages, PipelineStage[c08Item]{Lane: 1, Stage: 2, Item: c08Item{A: verifrt.Uint64("pa")}})
	data, err := c08Marshal(st)
	verifrt.Assert(err == nil, "marshal-state")
	var r c08State
	verifrt.Assert(c08Unmarshal(data, &r) == nil, "unmarshal-state")
	verifrt.Assert(r.Count == st.Count, "plain-field-survives")
	verifrt.Assert(r.Buf.cap == 3 && r.Buf.name == "b" && len(r.Buf.elements) == 1 && r.Buf.elements[0] == st.Buf.elements[0], "embedded-buffer-survives")
	verifrt.Assert(r.Pipe.width == 2 && r.Pipe.numStages == 3 && len(r.Pipe.stages) == 1 && r.Pipe.stages[0] == st.Pipe.stages[0], "embedded-pipeline-survives")
	verifrt.Cover("end")
}
