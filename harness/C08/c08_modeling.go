package modeling

// C08 (component state) — a component's State (scalars, a slice, a map, a
// nested struct) round-trips through SaveCheckpoint/LoadCheckpoint to an equal
// value, also when the checkpoint is loaded back into a component that has run
// on since (roll-back): nothing of the later state survives the load.

import (
	"io"

	"github.com/sarchlab/akita/v5/internal/verifrt"
	"github.com/sarchlab/akita/v5/timing"
)

type c08Sched struct{ now timing.VTimeInPicoSec }

func (s *c08Sched) CurrentTime() timing.VTimeInPicoSec { return s.now }
func (s *c08Sched) Schedule(e timing.Event)            {}

type c08Buf struct {
	data []byte
	pos  int
}

func (b *c08Buf) Write(p []byte) (int, error) { b.data = append(b.data, p...); return len(p), nil }
func (b *c08Buf) Read(p []byte) (int, error) {
	if b.pos >= len(b.data) {
		return 0, io.EOF
	}
	n := copy(p, b.data[b.pos:])
	b.pos += n
	return n, nil
}

type c08Spec struct {
	Freq timing.Freq `json:"freq"`
}
type c08Inner struct {
	A uint32 `json:"a"`
	B bool   `json:"b"`
}
type c08State struct {
	Count uint64            `json:"count"`
	List  []c08Inner        `json:"list"`
	Table map[uint64]uint32 `json:"table"`
	Open  map[string]bool   `json:"open"`
}

func VerifC08_ComponentReload() {
	spec := c08Spec{Freq: 1 * timing.GHz}
	build := func() *Component[c08Spec, c08State, None] {
		return NewBuilder[c08Spec, c08State, None]().WithEngine(&c08Sched{}).WithFreq(spec.Freq).WithSpec(spec).Build("Comp")
	}
	orig := build()
	orig.State.Count = verifrt.Uint64("count")
	nList := verifrt.Choice("list-len", 3)
	for i := 0; i < nList; i++ {
		orig.State.List = append(orig.State.List, c08Inner{A: verifrt.Uint32("a"), B: verifrt.Bool("b")})
	}
	keys := []uint64{1, 5, 9}
	if verifrt.Choice("table", 2) == 1 {
		orig.State.Table = map[uint64]uint32{}
		for _, k := range keys[:verifrt.Choice("table-len", 3)] {
			orig.State.Table[k] = verifrt.Uint32("tv")
		}
	}
	if verifrt.Choice("open", 2) == 1 {
		orig.State.Open = map[string]bool{"x": verifrt.Bool("ox")}
	}
	saved := orig.State // the maps of the saved value are not touched below (new maps are made instead)
	savedTable := map[uint64]uint32{}
	for k, v := range orig.State.Table {
		savedTable[k] = v
	}
	var w c08Buf
	verifrt.Assert(orig.SaveCheckpoint(&w) == nil, "save-succeeds")

	var target *Component[c08Spec, c08State, None]
	if verifrt.Choice("load-into-used-component", 2) == 1 {
		// the component runs on: counters move, entries are added everywhere
		target = orig
		target.State.Count++
		target.State.List = append(target.State.List, c08Inner{A: 77, B: true})
		if target.State.Table == nil {
			target.State.Table = map[uint64]uint32{}
		}
		target.State.Table[42] = 4242
		if target.State.Open == nil {
			target.State.Open = map[string]bool{}
		}
		target.State.Open["late"] = true
		verifrt.Cover("rolled-back")
	} else {
		target = build()
		verifrt.Cover("fresh")
	}
	verifrt.Assert(target.LoadCheckpoint(&c08Buf{data: w.data}) == nil, "load-succeeds")
	st := target.State
	verifrt.Assert(st.Count == saved.Count, "count-restored")
	verifrt.Assert(len(st.List) == nList, "list-length-restored")
	for i := 0; i < nList && i < len(st.List); i++ {
		verifrt.Assert(st.List[i] == saved.List[i], "list-elements-restored")
	}
	verifrt.Assert(len(st.Table) == len(savedTable), "table-has-exactly-the-saved-keys")
	for k, v := range savedTable {
		got, ok := st.Table[k]
		verifrt.Assert(ok && got == v, "table-entries-restored")
	}
	_, late := st.Open["late"]
	verifrt.Assert(!late, "no-later-entry-survives-the-load")
	if saved.Open != nil {
		verifrt.Assert(len(st.Open) == 1, "open-has-exactly-the-saved-keys")
	} else {
		verifrt.Assert(len(st.Open) == 0, "open-has-exactly-the-saved-keys")
	}
	verifrt.Cover("end")
}
