package queueing

import "encoding/json"

func c08Marshal(v any) ([]byte, error)      { return json.Marshal(v) }
func c08Unmarshal(d []byte, v any) error    { return json.Unmarshal(d, v) }
