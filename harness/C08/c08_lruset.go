package lruset

// C08 (fragment) — lruset.Set survives its JSON round trip: recency order,
// counters and key bindings; keyMap is never nil after load.

import "github.com/sarchlab/akita/v5/internal/verifrt"

func VerifC08_LRUSet() {
	ways := 1 + verifrt.Choice("ways", 3)
	s := NewSet(ways)
	// reach an arbitrary state by a few operations
	for i := 0; i < 3; i++ {
		switch verifrt.Choice("op", 4) {
		case 0:
			s.Visit(verifrt.Choice("way", ways))
		case 1:
			s.Evict()
		case 2:
			s.UpdateKey(verifrt.Choice("way", ways), "old", KeyString(1, 0x1000))
		case 3:
			s.UpdateKey(verifrt.Choice("way", ways), "old", KeyString(2, 0x2000))
		}
	}
	s.visitCount = verifrt.Uint64("visitCount") // counters are arbitrary 64-bit values
	data, err := s.MarshalJSON()
	verifrt.Assert(err == nil, "marshal-succeeds")
	var r Set
	verifrt.Assert(r.UnmarshalJSON(data) == nil, "unmarshal-succeeds")
	verifrt.Assert(r.wayCount == s.wayCount && r.visitCount == s.visitCount, "counters-survive")
	verifrt.Assert(len(r.visitList) == len(s.visitList), "recency-list-length-survives")
	for i := range s.visitList {
		if i < len(r.visitList) {
			verifrt.Assert(r.visitList[i] == s.visitList[i], "recency-order-survives")
		}
	}
	verifrt.Assert(len(r.lastVisits) == len(s.lastVisits), "last-visits-length")
	for i := range s.lastVisits {
		if i < len(r.lastVisits) {
			verifrt.Assert(r.lastVisits[i] == s.lastVisits[i], "last-visits-survive")
		}
	}
	verifrt.Assert(r.keyMap != nil && len(r.keyMap) == len(s.keyMap), "key-bindings-count-survives-and-map-not-nil")
	for _, k := range []string{KeyString(1, 0x1000), KeyString(2, 0x2000)} {
		w1, ok1 := s.Lookup(k)
		w2, ok2 := r.Lookup(k)
		verifrt.Assert(ok1 == ok2 && w1 == w2, "key-bindings-survive")
	}
	// behaviour after restore: the next eviction is the same
	e1, o1 := s.Evict()
	e2, o2 := r.Evict()
	verifrt.Assert(e1 == e2 && o1 == o2, "next-eviction-identical")
	verifrt.Cover("end")
}

// VerifC08_LRUSetEmptyMap: a set whose key map is empty round-trips to a usable set.
func VerifC08_LRUSetEmptyMap() {
	s := NewSet(2)
	s.keyMap = nil
	data, err := s.MarshalJSON()
	verifrt.Assert(err == nil, "marshal-succeeds")
	var r Set
	verifrt.Assert(r.UnmarshalJSON(data) == nil, "unmarshal-succeeds")
	verifrt.Assert(r.keyMap != nil, "keymap-never-nil-after-load")
	r.UpdateKey(0, "x", "y") // must not panic on a nil map
	_, ok := r.Lookup("y")
	verifrt.Assert(ok, "restored-set-is-usable")
	verifrt.Cover("end")
}
