package tracing

// C36 — the trace database records exactly the traced tasks.
// Bounded well-formed histories of task events interleaved with
// StartTracing/StopTracing/Terminate on the real DBTracer; the backend is a
// recording DataRecorder (its own contract is C35). Times are symbolic and
// non-decreasing; float64 conversions are encoded in the FP theory.

import (
	"github.com/sarchlab/akita/v5/internal/verifrt"
	"github.com/sarchlab/akita/v5/timing"
)

type c36Row struct {
	table string
	entry any
}

type c36Backend struct {
	rows    []c36Row
	flushes int
}

func (b *c36Backend) CreateTable(tableName string, sampleEntry any) {}
func (b *c36Backend) InsertData(tableName string, entry any) {
	b.rows = append(b.rows, c36Row{tableName, entry})
}
func (b *c36Backend) ListTables() []string { return nil }
func (b *c36Backend) Flush()               { b.flushes++ }
func (b *c36Backend) Close() error         { return nil }

type c36Clock struct{ now timing.VTimeInPicoSec }

func (c *c36Clock) CurrentTime() timing.VTimeInPicoSec { return c.now }

type c36Task struct {
	state      int // 0 new, 1 running, 2 ended
	start      timing.VTimeInPicoSec
	parent     uint64
	traced     bool // was running at some point while tracing was on
	tags       []TaskTag
	milestones []Milestone
}

func VerifC36_Hist() {
	clock := &c36Clock{}
	be := &c36Backend{}
	tr := NewDBTracer(clock, be)
	tasks := make([]c36Task, 2)
	tracing := false
	var windowStart timing.VTimeInPicoSec
	terminated := false
	nextID := uint64(100)
	steps := verifrt.Bound("steps", 6, 7)
	for i := 0; i < steps && !terminated; i++ {
		clock.now += timing.VTimeInPicoSec(verifrt.Uint64Range("dt", 0, 1<<40))
		now := clock.now
		rows0 := len(be.rows)
		// only well-formed next events are offered
		type c36Ev struct{ kind, task int }
		var enabled []c36Ev
		for j := range tasks {
			switch tasks[j].state {
			case 0:
				if j == 0 || tasks[j-1].state != 0 {
					enabled = append(enabled, c36Ev{0, j})
					if len(tasks[j].tags)+len(tasks[j].milestones) == 0 {
						// a task may first be mentioned by a tag or a milestone (once, to bound the search)
						enabled = append(enabled, c36Ev{2, j}, c36Ev{3, j})
					}
				}
			case 1:
				enabled = append(enabled, c36Ev{1, j}, c36Ev{2, j}, c36Ev{3, j})
			}
		}
		if tracing {
			enabled = append(enabled, c36Ev{5, 0})
		} else {
			enabled = append(enabled, c36Ev{4, 0})
		}
		enabled = append(enabled, c36Ev{6, 0})
		ev := enabled[verifrt.Choice("event", len(enabled))]
		id := ev.task
		tk := &tasks[id]
		tid := uint64(id + 1)
		switch ev.kind {
		case 0: // StartTask
			tk.parent = verifrt.Uint64("parent")
			tr.StartTask(TaskStart{ID: tid, ParentID: tk.parent, Kind: "kind", What: "what", Location: "Comp.Loc", Time: now})
			tk.state, tk.start, tk.traced = 1, now, tracing
			verifrt.Assert(len(be.rows) == rows0, "start-records-nothing-yet")
		case 1: // EndTask
			tr.EndTask(TaskEnd{ID: tid, Time: now})
			tk.state = 2
			if tk.traced {
				want := 1 + len(tk.milestones) + len(tk.tags)
				verifrt.Assert(len(be.rows) == rows0+want, "traced-task-recorded-once-with-its-milestones-and-tags")
				if len(be.rows) == rows0+want {
					e, ok := be.rows[rows0].entry.(taskTableEntry)
					verifrt.Assert(ok && be.rows[rows0].table == traceTableName, "task-row-in-trace-table")
					if ok {
						verifrt.Assert(e.ID == tid && e.ParentID == tk.parent && e.Kind == "kind" && e.What == "what" && e.Location == "Comp.Loc", "task-row-fields")
						verifrt.Assert(e.StartTime == float64(tk.start) && e.EndTime == float64(now), "task-row-times")
					}
					for j, m := range tk.milestones {
						me, ok := be.rows[rows0+1+j].entry.(milestoneTableEntry)
						verifrt.Assert(ok && me.ID == m.ID && me.TaskID == tid && me.Time == float64(m.Time) && me.What == m.What, "milestone-row")
					}
					for j, g := range tk.tags {
						ge, ok := be.rows[rows0+1+len(tk.milestones)+j].entry.(tagTableEntry)
						verifrt.Assert(ok && ge.ID == g.ID && ge.TaskID == tid && ge.Time == float64(g.Time) && ge.What == g.What, "tag-row")
					}
				}
				verifrt.Cover("recorded")
			} else {
				verifrt.Assert(len(be.rows) == rows0, "untraced-task-not-recorded")
				verifrt.Cover("not-recorded")
			}
		case 2: // AddTaskTag on a running task (or one not started yet)
			nextID++
			g := TaskTag{ID: nextID, TaskID: tid, What: "tag", Time: now}
			tr.AddTaskTag(g)
			tk.tags = append(tk.tags, g)
		case 3: // AddMilestone on a running task (or one not started yet): at most one per instant, first wins
			nextID++
			m := Milestone{ID: nextID, TaskID: tid, Time: now, Kind: MilestoneKindQueue, What: []string{"ms", "other"}[verifrt.Choice("milestone-what", 2)]}
			tr.AddMilestone(m)
			dup := false
			for _, o := range tk.milestones {
				if o.Time == now {
					dup = true
				}
			}
			if !dup {
				tk.milestones = append(tk.milestones, m)
			} else {
				verifrt.Cover("milestone-deduplicated")
			}
		case 4: // StartTracing
			tr.StartTracing()
			tracing, windowStart = true, now
			for j := range tasks {
				if tasks[j].state == 1 {
					tasks[j].traced = true
				}
			}
			verifrt.Assert(len(be.rows) == rows0, "start-tracing-records-nothing")
		case 5: // StopTracing
			tr.StopTracing()
			tracing = false
			verifrt.Assert(len(be.rows) == rows0+1, "one-segment-per-window")
			if len(be.rows) == rows0+1 {
				s, ok := be.rows[rows0].entry.(segmentTableEntry)
				verifrt.Assert(ok && be.rows[rows0].table == segmentTableName, "segment-row")
				if ok {
					verifrt.Assert(s.StartTime == float64(windowStart) && s.EndTime == float64(now), "segment-times")
				}
			}
			verifrt.Cover("segment")
		case 6: // Terminate
			tr.Terminate()
			terminated = true
			if tracing {
				verifrt.Assert(len(be.rows) == rows0+1, "terminate-closes-the-open-window")
				tracing = false
			} else {
				verifrt.Assert(len(be.rows) == rows0, "terminate-records-nothing-else")
			}
			// tasks still running are not recorded, even if they end later
			for j := range tasks {
				if tasks[j].state == 1 {
					r := len(be.rows)
					tr.EndTask(TaskEnd{ID: uint64(j + 1), Time: now})
					verifrt.Assert(len(be.rows) == r, "task-ending-after-termination-not-recorded")
				}
			}
			verifrt.Cover("terminated")
		}
		verifrt.Assert(tr.IsTracing() == tracing, "istracing-matches")
	}
	verifrt.Cover("end")
}
