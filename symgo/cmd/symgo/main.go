// Command symgo: solver-based checks of akita properties by symbolic
// execution of the real code's go/ssa form. See /verif/DESIGN.md.
package main

import (
	"crypto/sha256"
	"encoding/hex"
	"encoding/json"
	"flag"
	"fmt"
	"go/types"
	"os"
	"os/exec"
	"path/filepath"
	"runtime"
	"sort"
	"strconv"
	"strings"
	"time"

	"golang.org/x/tools/go/packages"
	"golang.org/x/tools/go/ssa"
	"golang.org/x/tools/go/ssa/ssautil"

	"symgo/interp"
	"symgo/smt"
)

const (
	repoDir    = "/repo"
	verifDir   = "/verif"
	modulePath = "github.com/sarchlab/akita/v5"
)

// ---- spec ----

type TierCfg struct {
	MaxPaths     int     `json:"max_paths"`
	OblTimeoutS  float64 `json:"obl_timeout_s"`
	FeasTimeoutS float64 `json:"feas_timeout_s"`
	MaxSteps     int64   `json:"max_steps"`
	Skip         bool    `json:"skip"`
}

type HarnessSpec struct {
	Func       string   `json:"func"`
	Pkg        string   `json:"pkg"` // directory relative to /repo
	Mode       string   `json:"mode"`
	Covers     []string `json:"covers"`
	Solvers    []string `json:"solvers"`
	MapOrder   string   `json:"maporder"`
	MapPermMax int      `json:"mapperm_max"`
	MaxMake    int      `json:"max_make"`
	GoMaxProcs int      `json:"gomaxprocs"`
	Sched      bool     `json:"sched"`
	Preempt    int      `json:"preempt"`
	FreeYields bool     `json:"free_yields"`
	SkipInit   bool     `json:"skip_init"`
	InitPkgs   []string `json:"init_pkgs"`
	Quick      TierCfg  `json:"quick"`
	Thorough   TierCfg  `json:"thorough"`
	Bounds     string   `json:"bounds"`  // human-readable statement of the bound
	Outside    string   `json:"outside"` // what lies outside the claim
	Note       string   `json:"note"`
}

type Spec struct {
	Property  string              `json:"property"`
	Files     map[string][]string `json:"files"` // pkg dir -> harness files (relative to the spec dir)
	Harnesses []HarnessSpec       `json:"harnesses"`
	InitStd   []string            `json:"init_std"`
	Assume    []string            `json:"assumptions"`
	Encoded   []string            `json:"encoded"` // documentation: functions under test
	Stubs     map[string]string   `json:"stubs"`   // extra contract stubs: function -> noop|real
	JSONStub  bool                `json:"json_stub"` // replace encoding/json by the contract stub
	ScanMapRanges bool            `json:"scan_map_ranges"` // list every range-over-map site of the loaded target packages
	CoveredSites  []string        `json:"covered_sites"`   // functions whose map ranges have an order-independence harness
	ScanPackages  []string        `json:"scan_packages"`   // extra package patterns loaded for the scan
}

// defaultStubs are applied to every check (each one that fires is listed in the evidence).
var defaultStubs = map[string]string{
	modulePath + "/timing.RegisterEvent":            "noop", // codec registration through reflection
	modulePath + "/messaging.RegisterMsg":           "noop", // codec registration through reflection
	modulePath + "/modeling.validateForCheckpoint":  "noop", // reflection walk over Spec/State types (C43, n/a)
	modulePath + "/modeling.ValidateSpec":           "noop",
	modulePath + "/modeling.ValidateState":          "noop",
	"regexp.MustCompile":                            "noop", // package-level patterns of the web layer; a nil *Regexp crashes if ever used
	"regexp.Compile":                                "noop",
	"net/http.HandleFunc":                           "noop",
	"net/http.Handle":                               "noop",
}

func loadSpec(prop string) (*Spec, string, error) {
	dir := filepath.Join(verifDir, "harness", prop)
	b, err := os.ReadFile(filepath.Join(dir, "spec.json"))
	if err != nil {
		return nil, dir, err
	}
	var s Spec
	if err := json.Unmarshal(b, &s); err != nil {
		return nil, dir, fmt.Errorf("%s/spec.json: %v", dir, err)
	}
	return &s, dir, nil
}

// ---- known findings ----

type known struct {
	prop, harness, label, text string
}

func loadKnown() (kn []known, fixed []string) {
	b, err := os.ReadFile(filepath.Join(verifDir, "KNOWN_FINDINGS.txt"))
	if err != nil {
		return
	}
	for _, line := range strings.Split(string(b), "\n") {
		line = strings.TrimSpace(line)
		if strings.HasPrefix(line, "fixed:") {
			fixed = append(fixed, line)
			continue
		}
		if !strings.HasPrefix(line, "known:") {
			continue
		}
		k := known{}
		rest := strings.Fields(strings.TrimSpace(strings.TrimPrefix(line, "known:")))
		var text []string
		for _, f := range rest {
			switch {
			case strings.HasPrefix(f, "property=") && k.prop == "":
				k.prop = strings.TrimPrefix(f, "property=")
			case strings.HasPrefix(f, "harness=") && k.harness == "":
				k.harness = strings.TrimPrefix(f, "harness=")
			case strings.HasPrefix(f, "label=") && k.label == "":
				k.label = strings.TrimPrefix(f, "label=")
			default:
				text = append(text, f)
			}
		}
		k.text = strings.Join(text, " ")
		kn = append(kn, k)
	}
	return
}

// ---- environment ----

func goEnv() []string {
	env := os.Environ()
	out := []string{}
	for _, e := range env {
		if strings.HasPrefix(e, "GOFLAGS=") || strings.HasPrefix(e, "GOTOOLCHAIN=") || strings.HasPrefix(e, "GOPROXY=") || strings.HasPrefix(e, "PATH=") || strings.HasPrefix(e, "GOSUMDB=") {
			continue
		}
		out = append(out, e)
	}
	out = append(out, "PATH=/opt/veriftools/go1.26.8/bin:"+os.Getenv("PATH"), "GOTOOLCHAIN=local", "GOFLAGS=-mod=mod", "GOPROXY=off")
	return out
}

func sha(path string) string {
	b, err := os.ReadFile(path)
	if err != nil {
		return "missing"
	}
	h := sha256.Sum256(b)
	return hex.EncodeToString(h[:8])
}

// ---- loading ----

type loaded struct {
	prog    *ssa.Program
	pkgs    map[string]*ssa.Package // by dir relative to repo
	sizes   types.Sizes
	overlay map[string][]byte
	ovFiles map[string]string // virtual -> real (for go build -overlay)
	loadS   float64
	ssaS    float64
}

func buildOverlay(spec *Spec, specDir string, withMain bool) (map[string][]byte, map[string]string, error) {
	ov := map[string][]byte{}
	real := map[string]string{}
	add := func(virtual, realPath string) error {
		b, err := os.ReadFile(realPath)
		if err != nil {
			return err
		}
		ov[virtual] = b
		real[virtual] = realPath
		return nil
	}
	if err := add(filepath.Join(repoDir, "internal/verifrt/rt.go"), filepath.Join(verifDir, "verifrt/rt.go")); err != nil {
		return nil, nil, err
	}
	for pkg, files := range spec.Files {
		for _, f := range files {
			v := filepath.Join(repoDir, pkg, "zz_verif_"+strings.ToLower(spec.Property)+"_"+filepath.Base(f))
			if err := add(v, filepath.Join(specDir, f)); err != nil {
				return nil, nil, err
			}
		}
	}
	if withMain {
		byPkg := map[string][]string{}
		for _, h := range spec.Harnesses {
			byPkg[h.Pkg] = append(byPkg[h.Pkg], h.Func)
		}
		outDir := filepath.Join(verifDir, "out", "gen", spec.Property)
		os.MkdirAll(outDir, 0o755)
		for pkg, funcs := range byPkg {
			var sb strings.Builder
			sb.WriteString("package main\n\nimport (\n\th \"" + modulePath + "/" + pkg + "\"\n\t\"" + modulePath + "/internal/verifrt\"\n)\n\n")
			sb.WriteString("func main() {\n\tverifrt.Main(map[string]func(){\n")
			for _, f := range funcs {
				fmt.Fprintf(&sb, "\t\t%q: h.%s,\n", f, f)
			}
			sb.WriteString("\t})\n}\n")
			realPath := filepath.Join(outDir, strings.ReplaceAll(pkg, "/", "_")+"_main.go")
			if err := os.WriteFile(realPath, []byte(sb.String()), 0o644); err != nil {
				return nil, nil, err
			}
			v := filepath.Join(repoDir, pkg, "zzverifmain", "main.go")
			ov[v] = []byte(sb.String())
			real[v] = realPath
		}
	}
	return ov, real, nil
}

func load(spec *Spec, specDir string) (*loaded, error) {
	ov, real, err := buildOverlay(spec, specDir, false)
	if err != nil {
		return nil, err
	}
	t0 := time.Now()
	// go/packages resolves `go` through the process PATH
	os.Setenv("PATH", "/opt/veriftools/go1.26.8/bin:"+os.Getenv("PATH"))
	os.Setenv("GOTOOLCHAIN", "local")
	os.Setenv("GOFLAGS", "-mod=mod")
	os.Setenv("GOPROXY", "off")
	cfg := &packages.Config{
		Mode: packages.NeedName | packages.NeedFiles | packages.NeedCompiledGoFiles | packages.NeedImports | packages.NeedDeps |
			packages.NeedTypes | packages.NeedSyntax | packages.NeedTypesInfo | packages.NeedTypesSizes | packages.NeedModule,
		Dir:     repoDir,
		Overlay: ov,
		Env:     goEnv(),
	}
	var patterns []string
	seen := map[string]bool{}
	for pkg := range spec.Files {
		if !seen[pkg] {
			seen[pkg] = true
			patterns = append(patterns, "./"+pkg)
		}
	}
	for _, h := range spec.Harnesses {
		if !seen[h.Pkg] {
			seen[h.Pkg] = true
			patterns = append(patterns, "./"+h.Pkg)
		}
	}
	sort.Strings(patterns)
	nHarnessPkgs := len(patterns)
	patterns = append(patterns, spec.ScanPackages...) // extra packages, loaded only to be scanned
	_ = nHarnessPkgs
	pkgs, err := packages.Load(cfg, patterns...)
	if err != nil {
		return nil, err
	}
	nerr := 0
	packages.Visit(pkgs, nil, func(p *packages.Package) {
		for _, e := range p.Errors {
			if nerr < 20 {
				fmt.Fprintf(os.Stderr, "load error: %s: %v\n", p.PkgPath, e)
			}
			nerr++
		}
	})
	if nerr > 0 {
		return nil, fmt.Errorf("%d package load errors (the tree under /repo does not type-check with the harness overlay)", nerr)
	}
	l := &loaded{pkgs: map[string]*ssa.Package{}, overlay: ov, ovFiles: real}
	l.loadS = time.Since(t0).Seconds()
	t1 := time.Now()
	prog, spkgs := ssautil.AllPackages(pkgs, ssa.InstantiateGenerics|ssa.SanityCheckFunctions&0)
	prog.Build()
	l.prog = prog
	for i, p := range pkgs {
		rel := strings.TrimPrefix(strings.TrimPrefix(p.PkgPath, modulePath), "/")
		l.pkgs[rel] = spkgs[i]
		if l.sizes == nil {
			l.sizes = p.TypesSizes
		}
	}
	l.ssaS = time.Since(t1).Seconds()
	return l, nil
}

// ---- native replay ----

type nativeBin struct {
	path string
	err  error
}

var nativeBins = map[string]*nativeBin{}

func buildNative(spec *Spec, specDir, pkg string) (string, error) {
	if nb := nativeBins[pkg]; nb != nil {
		return nb.path, nb.err
	}
	_, real, err := buildOverlay(spec, specDir, true)
	if err != nil {
		return "", err
	}
	outDir := filepath.Join(verifDir, "out", "gen", spec.Property)
	os.MkdirAll(outDir, 0o755)
	ovj := struct {
		Replace map[string]string
	}{real}
	b, _ := json.Marshal(ovj)
	ovPath := filepath.Join(outDir, "overlay.json")
	if err := os.WriteFile(ovPath, b, 0o644); err != nil {
		return "", err
	}
	binDir := filepath.Join(verifDir, "out", "bin")
	os.MkdirAll(binDir, 0o755)
	bin := filepath.Join(binDir, spec.Property+"_"+strings.ReplaceAll(pkg, "/", "_")+".replay")
	cmd := exec.Command("/opt/veriftools/go1.26.8/bin/go", "build", "-overlay", ovPath, "-o", bin, "./"+pkg+"/zzverifmain")
	cmd.Dir = repoDir
	cmd.Env = goEnv()
	out, err := cmd.CombinedOutput()
	nb := &nativeBin{path: bin}
	if err != nil {
		nb.err = fmt.Errorf("native build of %s failed: %v\n%s", pkg, err, out)
	}
	nativeBins[pkg] = nb
	return nb.path, nb.err
}

type replayFile struct {
	Property string               `json:"property"`
	Harness  string               `json:"harness"`
	Pkg      string               `json:"pkg"`
	Thorough bool                 `json:"thorough"`
	Label    string               `json:"label"`
	Kind     string               `json:"kind"`
	Msg      string               `json:"msg"`
	Inputs   []interp.ReplayInput `json:"inputs"`
	Retries  int                  `json:"retries,omitempty"`
}

type nativeOut struct {
	observes []string
	fails    []string
	covers   []string
	outcome  string
	raw      string
}

func runNative(bin, harness, replayPath string) (*nativeOut, error) {
	cmd := exec.Command(bin, harness)
	cmd.Env = append(os.Environ(), "VERIFRT_REPLAY="+replayPath)
	done := make(chan struct{})
	var out []byte
	var err error
	go func() { out, err = cmd.CombinedOutput(); close(done) }()
	select {
	case <-done:
	case <-time.After(60 * time.Second):
		cmd.Process.Kill()
		<-done
		return &nativeOut{outcome: "timeout", raw: string(out)}, nil
	}
	no := &nativeOut{raw: string(out)}
	for _, line := range strings.Split(string(out), "\n") {
		switch {
		case strings.HasPrefix(line, "OBS "):
			no.observes = append(no.observes, strings.TrimPrefix(line, "OBS "))
		case strings.HasPrefix(line, "ASSERTFAIL "):
			no.fails = append(no.fails, strings.TrimPrefix(line, "ASSERTFAIL "))
		case strings.HasPrefix(line, "COVER "):
			no.covers = append(no.covers, strings.TrimPrefix(line, "COVER "))
		case strings.HasPrefix(line, "OUTCOME "):
			no.outcome = strings.TrimPrefix(line, "OUTCOME ")
		case strings.HasPrefix(line, "VERIFRT-ERROR"):
			return no, fmt.Errorf("%s", line)
		}
	}
	if no.outcome == "" {
		// the process died without reaching the deferred handler (fatal error: deadlock, os.Exit...)
		if err != nil {
			no.outcome = "fatal: " + firstLine(strings.TrimSpace(lastLines(string(out), 1)))
			if strings.Contains(string(out), "fatal error:") {
				i := strings.Index(string(out), "fatal error:")
				no.outcome = "fatal: " + firstLine(string(out)[i:])
			}
		} else {
			no.outcome = "unknown"
		}
	}
	return no, nil
}

func firstLine(s string) string {
	if i := strings.IndexByte(s, '\n'); i >= 0 {
		return s[:i]
	}
	return s
}

func lastLines(s string, n int) string {
	ls := strings.Split(strings.TrimSpace(s), "\n")
	if len(ls) > n {
		ls = ls[len(ls)-n:]
	}
	return strings.Join(ls, "\n")
}

// confirm replays a violation natively; true if the same failure shows.
// confirm replays a counterexample natively. A counterexample that depends on
// Go's randomised map iteration order is retried (the order is an input the
// native run draws at random).
func confirm(spec *Spec, specDir string, rf *replayFile, path string) (bool, string) {
	tries := 1
	if rf.Retries > 1 {
		tries = rf.Retries
	}
	var ok bool
	var why string
	for i := 0; i < tries; i++ {
		ok, why = confirmOnce(spec, specDir, rf, path)
		if ok {
			if tries > 1 {
				why += fmt.Sprintf(" (native attempt %d of %d; depends on map iteration order or goroutine schedule)", i+1, tries)
			}
			return ok, why
		}
	}
	return ok, why
}

func confirmOnce(spec *Spec, specDir string, rf *replayFile, path string) (bool, string) {
	bin, err := buildNative(spec, specDir, rf.Pkg)
	if err != nil {
		return false, err.Error()
	}
	no, err := runNative(bin, rf.Harness, path)
	if err != nil {
		return false, err.Error()
	}
	switch rf.Kind {
	case "assert":
		for _, f := range no.fails {
			if f == rf.Label {
				return true, "native run prints ASSERTFAIL " + f
			}
		}
		return false, "native run does not fail assertion " + rf.Label + " (outcome " + no.outcome + ", fails " + strings.Join(no.fails, ",") + ")"
	case "panic":
		if strings.HasPrefix(no.outcome, "panic") {
			return true, "native run: " + no.outcome
		}
		return false, "native run does not panic (outcome " + no.outcome + ")"
	case "fatal":
		if strings.HasPrefix(no.outcome, "fatal") || no.outcome == "timeout" {
			return true, "native run: " + no.outcome
		}
		return false, "native run is not fatal (outcome " + no.outcome + ")"
	}
	return false, "unknown violation kind"
}

// ---- evidence ----

type harnessEvidence struct {
	Harness      string            `json:"harness"`
	Pkg          string            `json:"pkg"`
	Mode         string            `json:"encoding"`
	Bounds       string            `json:"bounds"`
	Outside      string            `json:"outside_the_claim"`
	Paths        int               `json:"paths"`
	Completed    int               `json:"paths_completed"`
	Pruned       int               `json:"paths_pruned_by_assumptions"`
	Decisions    int               `json:"decisions"`
	Obligations  int               `json:"obligations"`
	Discharged   int               `json:"discharged"`
	Trivial      int               `json:"discharged_without_solver"`
	FeasQueries  int               `json:"feasibility_queries"`
	OblQueries   int               `json:"obligation_queries"`
	SolverStats  map[string][4]int `json:"solver_sat_unsat_unknown_total"`
	SolverTimeS  float64           `json:"solver_time_s"`
	WallS        float64           `json:"wall_s"`
	SSASteps     int64             `json:"ssa_instructions_executed"`
	Covers       map[string]int    `json:"cover_labels_reached"`
	MapPerms     int               `json:"map_order_choices"`
	MaxInputs    int               `json:"max_symbolic_inputs_per_path"`
	Violations   int               `json:"violations"`
	Inconclusive []string          `json:"inconclusive,omitempty"`
	NativeAgree  int               `json:"paths_validated_against_native_build"`
	NativeDiff   []string          `json:"native_disagreements,omitempty"`
	Distinct     int               `json:"distinct_path_signatures"`
}

func main() {
	if len(os.Args) < 2 {
		fmt.Fprintln(os.Stderr, "usage: symgo check <Cxx> quick|thorough [-harness name] | symgo replay <file>")
		os.Exit(2)
	}
	switch os.Args[1] {
	case "check":
		os.Exit(cmdCheck(os.Args[2:]))
	case "replay":
		os.Exit(cmdReplay(os.Args[2:]))
	default:
		fmt.Fprintln(os.Stderr, "unknown command", os.Args[1])
		os.Exit(2)
	}
}

func cmdReplay(args []string) int {
	if len(args) < 1 {
		fmt.Fprintln(os.Stderr, "usage: symgo replay <file>")
		return 2
	}
	b, err := os.ReadFile(args[0])
	if err != nil {
		fmt.Fprintln(os.Stderr, err)
		return 2
	}
	var rf replayFile
	if err := json.Unmarshal(b, &rf); err != nil {
		fmt.Fprintln(os.Stderr, err)
		return 2
	}
	spec, specDir, err := loadSpec(rf.Property)
	if err != nil {
		fmt.Fprintln(os.Stderr, err)
		return 2
	}
	bin, err := buildNative(spec, specDir, rf.Pkg)
	if err != nil {
		fmt.Fprintln(os.Stderr, err)
		return 2
	}
	no, err := runNative(bin, rf.Harness, args[0])
	if err != nil {
		fmt.Fprintln(os.Stderr, err)
		return 2
	}
	fmt.Print(no.raw)
	ok, why := confirm(spec, specDir, &rf, args[0])
	fmt.Println("replay:", why)
	if ok {
		fmt.Printf("VIOLATION property=%s replay=%s\n", rf.Property, args[0])
		return 1
	}
	return 0
}

func cmdCheck(args []string) int {
	fs := flag.NewFlagSet("check", flag.ExitOnError)
	only := fs.String("harness", "", "run only this harness")
	workers := fs.Int("workers", runtime.NumCPU(), "parallel workers")
	trace := fs.Bool("trace", false, "trace calls")
	dbg := fs.Bool("solverdebug", false, "print solver traffic")
	noNative := fs.Bool("nonative", false, "skip native differential (debug only; makes the run inconclusive)")
	if len(args) < 2 {
		fmt.Fprintln(os.Stderr, "usage: symgo check <Cxx> quick|thorough")
		return 2
	}
	prop, tier := args[0], args[1]
	fs.Parse(args[2:])
	if tier != "quick" && tier != "thorough" {
		fmt.Fprintln(os.Stderr, "tier must be quick or thorough")
		return 2
	}
	smt.SolverDebug.Store(*dbg)
	t0 := time.Now()
	seed := 0
	if s := os.Getenv("VERIF_SEED"); s != "" {
		seed, _ = strconv.Atoi(s)
	}
	spec, specDir, err := loadSpec(prop)
	if err != nil {
		fmt.Println("ENGINE-ERROR", err)
		return 2
	}
	ld, err := load(spec, specDir)
	if err != nil {
		fmt.Println("ENGINE-ERROR load:", err)
		return 2
	}
	w := interp.Prepare(ld.prog, ld.sizes, modulePath)
	w.Trace = *trace
	w.JSONStub = spec.JSONStub
	w.Stubs = map[string]string{}
	for k, v := range defaultStubs {
		w.Stubs[k] = v
	}
	for k, v := range spec.Stubs {
		w.Stubs[strings.ReplaceAll(k, "akita/", modulePath+"/")] = v
	}
	for _, p := range append([]string{"errors", "io", "io/fs", "strconv", "unicode/utf8", "math", "sort", "container/list", "encoding/binary", "net", "net/netip", "unicode", "internal/bytealg", "syscall", "time", "os"}, spec.InitStd...) {
		w.InitStd[p] = true
	}
	// only harmless ones by default
	for _, p := range []string{"net", "syscall", "time", "os"} {
		found := false
		for _, q := range spec.InitStd {
			if q == p {
				found = true
			}
		}
		if !found {
			delete(w.InitStd, p)
		}
	}
	var mapSites, uncoveredSites []string
	if spec.ScanMapRanges {
		seenSite := map[string]bool{}
		for fn := range ssautil.AllFunctions(ld.prog) {
			if fn.Pkg == nil || !strings.HasPrefix(fn.Pkg.Pkg.Path(), modulePath) || strings.HasSuffix(fn.Pkg.Pkg.Path(), "internal/verifrt") {
				continue
			}
			file := ld.prog.Fset.Position(fn.Pos()).Filename
			if strings.Contains(file, "zz_verif_") || strings.HasSuffix(file, "_test.go") {
				continue
			}
			for _, b := range fn.Blocks {
				for _, in := range b.Instrs {
					r, ok := in.(*ssa.Range)
					if !ok {
						continue
					}
					if _, isMap := r.X.Type().Underlying().(*types.Map); !isMap {
						continue
					}
					name := fn.String()
					if o := fn.Origin(); o != nil {
						name = o.String()
					}
					name = strings.ReplaceAll(name, modulePath+"/", "")
					pos := ld.prog.Fset.Position(r.Pos())
					site := fmt.Sprintf("%s (%s:%d)", name, strings.TrimPrefix(pos.Filename, repoDir+"/"), pos.Line)
					if seenSite[site] {
						continue
					}
					seenSite[site] = true
					mapSites = append(mapSites, site)
					covered := false
					for _, c := range spec.CoveredSites {
						if strings.Contains(name, c) {
							covered = true
						}
					}
					if !covered {
						uncoveredSites = append(uncoveredSites, site)
					}
				}
			}
		}
		sort.Strings(mapSites)
		sort.Strings(uncoveredSites)
		for _, s := range uncoveredSites {
			fmt.Println("UNCOVERED-SITE", s)
		}
		fmt.Printf("[%s] map-range sites in loaded target packages: %d, without an order-independence harness: %d\n", prop, len(mapSites), len(uncoveredSites))
	}
	kn, _ := loadKnown()

	replayDir := filepath.Join(verifDir, "out", "replay", prop)
	os.RemoveAll(replayDir)
	os.MkdirAll(replayDir, 0o755)

	exit := 0
	var hevs []harnessEvidence
	var samples []any
	totalPaths, totalDec, totalObl, totalDis, totalNative, totalDistinct := 0, 0, 0, 0, 0, 0
	nViol := 0
	funcs := map[string]bool{}
	stubs := map[string]bool{}
	var engineErrs []string
	var knownHits []string
	solverTime := 0.0
	queries := 0

	for _, hs := range spec.Harnesses {
		if *only != "" && hs.Func != *only {
			continue
		}
		tc := hs.Quick
		if tier == "thorough" {
			tc = hs.Thorough
		}
		if tc.Skip {
			continue
		}
		pkg := ld.pkgs[hs.Pkg]
		if pkg == nil {
			engineErrs = append(engineErrs, "package not loaded: "+hs.Pkg)
			continue
		}
		fn := pkg.Func(hs.Func)
		if fn == nil {
			engineErrs = append(engineErrs, "harness function not found: "+hs.Pkg+"."+hs.Func)
			continue
		}
		mode := smt.ModeBV
		if hs.Mode == "int" {
			mode = smt.ModeInt
		}
		solvers := hs.Solvers
		if len(solvers) == 0 {
			if mode == smt.ModeBV {
				solvers = []string{"z3", "z3-new"}
			} else {
				solvers = []string{"cvc5", "z3-new", "z3"}
			}
		}
		if s := os.Getenv("SYMGO_SOLVERS"); s != "" {
			solvers = strings.Split(s, ",")
		}
		knownLabels := map[string]bool{}
		for _, k := range kn {
			if k.prop == prop && k.harness == hs.Func {
				knownLabels[k.label] = true
			}
		}
		h := &interp.Harness{
			KnownLabels: knownLabels,
			Name: hs.Func, Fn: fn, Mode: mode, Thorough: tier == "thorough",
			MapOrder: hs.MapOrder, MapPermMax: hs.MapPermMax, MaxMake: hs.MaxMake, GoMaxProcs: hs.GoMaxProcs,
			SkipInit: hs.SkipInit, InitPkgs: hs.InitPkgs,
			Sched: hs.Sched, Preempt: hs.Preempt, FreeYields: hs.FreeYields, Covers: hs.Covers, MaxPaths: tc.MaxPaths, Solvers: solvers, Samples: 16,
			Race: mode == smt.ModeInt && os.Getenv("SYMGO_NORACE") == "",
		}
		if h.MapPermMax == 0 {
			h.MapPermMax = 4
		}
		if h.MaxMake == 0 {
			h.MaxMake = 64
		}
		if h.GoMaxProcs == 0 {
			h.GoMaxProcs = 2
		}
		if h.MaxPaths == 0 {
			h.MaxPaths = 20000
			if tier == "thorough" {
				h.MaxPaths = 1000000
			}
		}
		h.Lim = interp.Limits{
			FeasTimeout: time.Duration(orF(tc.FeasTimeoutS, 10) * float64(time.Second)),
			OblTimeout:  time.Duration(orF(tc.OblTimeoutS, map[bool]float64{false: 60, true: 600}[tier == "thorough"]) * float64(time.Second)),
			MaxSteps:    tc.MaxSteps,
		}
		if h.Lim.MaxSteps == 0 {
			h.Lim.MaxSteps = 2000000
		}
		fmt.Printf("[%s] %s.%s mode=%s solvers=%v ...\n", prop, hs.Pkg, hs.Func, mode, solvers)
		res := interp.Explore(w, h, *workers)
		hev := harnessEvidence{
			Harness: hs.Func, Pkg: hs.Pkg, Mode: mode.String(), Bounds: hs.Bounds, Outside: hs.Outside,
			Paths: res.Paths, Completed: res.Completed, Pruned: res.Pruned, Decisions: res.Decisions,
			Obligations: res.Obligs, Discharged: res.Discharged, Trivial: res.Trivial,
			FeasQueries: res.FeasQ, OblQueries: res.OblQ, SolverStats: res.SolverStats,
			SolverTimeS: res.SolverTime.Seconds(), WallS: res.Wall.Seconds(), SSASteps: res.Steps,
			Covers: res.Covers, MapPerms: res.MapPerms, MaxInputs: res.MaxInputs, Violations: len(res.Violations),
			Inconclusive: res.Inconcl, Distinct: len(res.DistinctSig),
		}
		for f := range res.Funcs {
			funcs[f] = true
		}
		for f := range res.Stubs {
			stubs[f] = true
		}
		for _, st := range res.SolverStats {
			queries += st[3]
		}
		solverTime += res.SolverTime.Seconds()
		fmt.Printf("[%s] %s: paths=%d completed=%d pruned=%d obligations=%d discharged=%d violations=%d inconclusive=%d wall=%.1fs solver=%.1fs\n",
			prop, hs.Func, res.Paths, res.Completed, res.Pruned, res.Obligs, res.Discharged, len(res.Violations), len(res.Inconcl), res.Wall.Seconds(), res.SolverTime.Seconds())

		// vacuity: every declared cover label must be reached on a feasible path
		for _, c := range hs.Covers {
			if res.Covers[c] == 0 && len(res.Inconcl) == 0 && len(res.Violations) == 0 {
				engineErrs = append(engineErrs, fmt.Sprintf("%s: vacuous: cover label %q reached by no feasible path", hs.Func, c))
			}
		}
		for _, s := range res.Inconcl {
			engineErrs = append(engineErrs, hs.Func+": "+s)
		}

		// violations: dedupe by label, confirm natively
		seenLabel := map[string]int{}
		confirmedLabel := map[string]bool{}
		unconfirmed := map[string][]string{}
		for _, v := range res.Violations {
			key := v.Kind + "/" + v.Label
			if v.Kind != "assert" {
				key += "/" + firstLine(v.Msg)
			}
			seenLabel[key]++
			if v.MapOrder {
				// schedule / map-order dependent counterexamples: the native run draws the
				// schedule at random, so try several candidates of a label until one reproduces
				if confirmedLabel[key] || seenLabel[key] > 8 {
					continue
				}
			} else if seenLabel[key] > 2 {
				continue
			}
			rf := &replayFile{Property: prop, Harness: hs.Func, Pkg: hs.Pkg, Thorough: tier == "thorough", Label: v.Label, Kind: v.Kind, Msg: v.Msg, Inputs: v.Inputs}
			if v.MapOrder {
				rf.Retries = 60
			}
			path := filepath.Join(replayDir, fmt.Sprintf("%s-%s-%d.json", hs.Func, sanitizeFile(v.Label), seenLabel[key]))
			b, _ := json.MarshalIndent(rf, "", " ")
			os.WriteFile(path, b, 0o644)
			if *noNative {
				fmt.Printf("CANDIDATE property=%s harness=%s label=%s kind=%s msg=%q replay=%s\n", prop, hs.Func, v.Label, v.Kind, firstLine(v.Msg), path)
				continue
			}
			ok, why := confirm(spec, specDir, rf, path)
			if !ok {
				msg := fmt.Sprintf("%s: model for %s/%s does not reproduce natively: %s (replay %s)", hs.Func, v.Kind, v.Label, why, path)
				if v.MapOrder {
					unconfirmed[key] = append(unconfirmed[key], msg)
				} else {
					engineErrs = append(engineErrs, msg)
				}
				continue
			}
			confirmedLabel[key] = true
			isKnown := false
			for _, k := range kn {
				if k.prop == prop && k.harness == hs.Func && k.label == v.Label {
					isKnown = true
					if seenLabel[key] == 1 {
						line := fmt.Sprintf("KNOWN-FINDING: property=%s %s [harness=%s label=%s replay=%s]", prop, k.text, hs.Func, v.Label, path)
						fmt.Println(line)
						knownHits = append(knownHits, line)
					}
				}
			}
			if !isKnown {
				nViol++
				fmt.Printf("VIOLATION property=%s replay=%s\n", prop, path)
				fmt.Printf("  harness=%s label=%s kind=%s: %s; %s\n", hs.Func, v.Label, v.Kind, firstLine(v.Msg), why)
				exit = 1
			}
		}

		for key, msgs := range unconfirmed {
			if confirmedLabel[key] {
				continue
			}
			// A schedule-dependent counterexample of a LISTED known finding (it was
			// confirmed natively when it was recorded) that the Go scheduler did not
			// reproduce in this run is still reported as that known finding, not as
			// an engine error: the native schedule is random.
			isKnownKey := false
			for _, k := range kn {
				if k.prop == prop && k.harness == hs.Func && key == "assert/"+k.label {
					isKnownKey = true
					line := fmt.Sprintf("KNOWN-FINDING: property=%s %s [harness=%s label=%s; %d candidate schedules were not reproduced by the native scheduler in this run]", prop, k.text, hs.Func, k.label, len(msgs))
					fmt.Println(line)
					knownHits = append(knownHits, line)
				}
			}
			if !isKnownKey {
				engineErrs = append(engineErrs, msgs[0]+fmt.Sprintf(" [%d candidates of this label tried, none reproduced]", len(msgs)))
			}
		}

		// differential against the native build
		if !*noNative {
			bin, err := buildNative(spec, specDir, hs.Pkg)
			if err != nil {
				engineErrs = append(engineErrs, err.Error())
			} else {
				for k, s := range res.Samples {
					rf := &replayFile{Property: prop, Harness: hs.Func, Pkg: hs.Pkg, Thorough: tier == "thorough", Label: "sample", Kind: "sample", Inputs: s.Inputs}
					path := filepath.Join(replayDir, fmt.Sprintf("%s-sample-%d.json", hs.Func, k))
					b, _ := json.Marshal(rf)
					os.WriteFile(path, b, 0o644)
					no, err := runNative(bin, hs.Func, path)
					if err != nil {
						hev.NativeDiff = append(hev.NativeDiff, fmt.Sprintf("sample %d: %v", k, err))
						continue
					}
					if d := diffSample(s, no); d != "" {
						hev.NativeDiff = append(hev.NativeDiff, fmt.Sprintf("sample %d (%s): %s", k, path, d))
					} else {
						hev.NativeAgree++
						os.Remove(path)
					}
				}
				for _, d := range hev.NativeDiff {
					engineErrs = append(engineErrs, hs.Func+": executor and native build disagree: "+d)
				}
			}
		}
		for k, s := range res.Samples {
			if k < 3 {
				samples = append(samples, map[string]any{"harness": hs.Func, "inputs": s.Inputs, "observes": s.Observes, "outcome": s.Outcome, "decisions": s.Path})
			}
		}
		totalPaths += res.Paths
		totalDec += res.Decisions
		totalObl += res.Obligs
		totalDis += res.Discharged
		totalNative += hev.NativeAgree
		totalDistinct += len(res.DistinctSig)
		hevs = append(hevs, hev)
	}

	if len(hevs) == 0 && len(engineErrs) == 0 {
		engineErrs = append(engineErrs, "no harness ran")
	}
	if w.FirstSolverError != "" {
		engineErrs = append(engineErrs, fmt.Sprintf("solver errors %v, first: %s", w.SolverErrors, firstLine(w.FirstSolverError)))
	}
	for _, e := range engineErrs {
		fmt.Println("ENGINE-ERROR", firstLine(e))
		if strings.Contains(e, "\n") && len(e) < 3000 {
			fmt.Println(e)
		}
	}
	if len(engineErrs) > 0 && exit == 0 {
		exit = 2
	}

	// evidence
	var fl []string
	for f := range funcs {
		if strings.Contains(f, "sarchlab/akita") && !strings.Contains(f, "verifrt") && !strings.Contains(f, ".Verif") && !strings.Contains(f, "zzv") {
			fl = append(fl, f)
		}
	}
	sort.Strings(fl)
	var sl []string
	for f := range stubs {
		if !strings.Contains(f, "internal/verifrt.") {
			sl = append(sl, f)
		}
	}
	sort.Strings(sl)
	hashes := map[string]string{}
	for v, r := range ld.ovFiles {
		hashes[strings.TrimPrefix(v, repoDir+"/")] = sha(r)
	}
	srcHashes := map[string]string{}
	for _, f := range fl {
		// record the hash of each source file containing an executed target function
		_ = f
	}
	for _, p := range ld.pkgs {
		for _, m := range p.Members {
			if fn, ok := m.(*ssa.Function); ok && fn.Pos().IsValid() {
				file := ld.prog.Fset.Position(fn.Pos()).Filename
				if strings.HasPrefix(file, repoDir) && !strings.Contains(file, "zz_verif_") {
					srcHashes[strings.TrimPrefix(file, repoDir+"/")] = ""
				}
			}
		}
	}
	for f := range srcHashes {
		srcHashes[f] = sha(filepath.Join(repoDir, f))
	}
	if len(samples) == 0 {
		samples = append(samples, "no path completed")
	}
	assumptions := append([]string{
		"the symbolic executor (symgo: port of x/tools go/ssa/interp) implements go/ssa semantics; cross-checked per run by replaying sampled path models on the natively compiled harness",
		"SMT solvers z3 4.8.12 / z3 5.1.0 / cvc5 1.0.3 are sound for sat/unsat answers",
		"intrinsics and stubs listed under coverage.stubs_and_intrinsics model their originals",
	}, spec.Assume...)
	ev := map[string]any{
		"property_id": prop,
		"tier":        tier,
		"seed":        seed,
		"level":       "model_checking",
		"coverage": map[string]any{
			"states":                        max(totalPaths, 1),
			"transitions":                   max(totalDec, 1),
			"traces_validated_against_impl": totalNative,
			"samples":                       samples,
			"evaluations":                   max(totalPaths, 1),
			"distinct_nontrivial":           totalDistinct,
			"rule":                          "one evaluation = one feasible symbolic path of a harness over the real functions (each path stands for all inputs satisfying its path condition); distinct_nontrivial counts distinct (outcome, cover-label set) signatures per harness",
			"obligations":                   totalObl,
			"discharged":                    totalDis,
			"explanation":                   "bounded symbolic execution of the go/ssa form of the real functions; states = feasible paths, transitions = symbolic decisions; every assertion on every path is an SMT query pc ∧ ¬assertion that must be unsat",
			"harnesses":                     hevs,
			"functions_encoded":             fl,
			"stubs_and_intrinsics":          sl,
			"harness_file_hashes":           hashes,
			"repo_source_hashes":            srcHashes,
			"solver_queries":                queries,
			"solver_time_s":                 solverTime,
			"package_load_s":                ld.loadS,
			"ssa_build_s":                   ld.ssaS,
			"known_findings_reported":       knownHits,
			"map_range_sites":               mapSites,
			"map_range_sites_uncovered":     uncoveredSites,
			"engine_errors":                 engineErrs,
			"encoded_doc":                   spec.Encoded,
			"exhaustive":                    false,
		},
		"assumptions": assumptions,
		"wall_s":      time.Since(t0).Seconds(),
		"violations":  nViol,
	}
	if *only == "" {
		os.MkdirAll(filepath.Join(verifDir, "evidence"), 0o755)
		b, _ := json.MarshalIndent(ev, "", " ")
		if err := os.WriteFile(filepath.Join(verifDir, "evidence", prop+".json"), b, 0o644); err != nil {
			fmt.Println("ENGINE-ERROR cannot write evidence:", err)
			return 2
		}
	}
	fmt.Printf("[%s] %s: paths=%d obligations=%d discharged=%d native-validated=%d violations=%d known=%d engine-errors=%d wall=%.1fs exit=%d\n",
		prop, tier, totalPaths, totalObl, totalDis, totalNative, nViol, len(knownHits), len(engineErrs), time.Since(t0).Seconds(), exit)
	return exit
}

func orF(v, d float64) float64 {
	if v == 0 {
		return d
	}
	return v
}

func sanitizeFile(s string) string {
	var sb strings.Builder
	for _, r := range s {
		if (r >= 'a' && r <= 'z') || (r >= 'A' && r <= 'Z') || (r >= '0' && r <= '9') || r == '-' || r == '_' {
			sb.WriteRune(r)
		} else {
			sb.WriteByte('_')
		}
	}
	return sb.String()
}

// diffSample compares the executor's prediction with the native run.
func diffSample(s *interp.PathSample, no *nativeOut) string {
	want := s.Outcome
	got := no.outcome
	wantClass := strings.SplitN(want, ":", 2)[0]
	gotClass := strings.SplitN(got, ":", 2)[0]
	if wantClass != gotClass {
		return fmt.Sprintf("outcome: executor %q, native %q", want, got)
	}
	if len(s.Observes) != len(no.observes) {
		return fmt.Sprintf("observation count: executor %d %v, native %d %v", len(s.Observes), s.Observes, len(no.observes), no.observes)
	}
	for i := range s.Observes {
		if s.Observes[i] != no.observes[i] {
			return fmt.Sprintf("observation %d: executor %q, native %q", i, s.Observes[i], no.observes[i])
		}
	}
	return ""
}
