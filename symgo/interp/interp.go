// Copyright 2013 The Go Authors. All rights reserved.
// Use of this source code is governed by a BSD-style
// license that can be found in the LICENSE file.

// Package ssa/interp defines an interpreter for the SSA
// representation of Go programs.
//
// This interpreter is provided as an adjunct for testing the SSA
// construction algorithm.  Its purpose is to provide a minimal
// metacircular implementation of the dynamic semantics of each SSA
// instruction.  It is not, and will never be, a production-quality Go
// interpreter.
//
// The following is a partial list of Go features that are currently
// unsupported or incomplete in the interpreter.
//
// * Unsafe operations, including all uses of unsafe.Pointer, are
// impossible to support given the "boxed" value representation we
// have chosen.
//
// * The reflect package is only partially implemented.
//
// * The "testing" package is no longer supported because it
// depends on low-level details that change too often.
//
// * "sync/atomic" operations are not atomic due to the "boxed" value
// representation: it is not possible to read, modify and write an
// interface value atomically. As a consequence, Mutexes are currently
// broken.
//
// * recover is only partially implemented.  Also, the interpreter
// makes no attempt to distinguish target panics from interpreter
// crashes.
//
// * the sizes of the int, uint and uintptr types in the target
// program are assumed to be the same as those of the interpreter
// itself.
//
// * all values occupy space, even those of types defined by the spec
// to have zero size, e.g. struct{}.  This can cause asymptotic
// performance degradation.
//
// * os.Exit is implemented using panic, causing deferred functions to
// run.
package interp

import (
	"fmt"
	"go/token"
	"go/types"
	"os"
	"runtime"
	"slices"
	"strings"
	"sync"
	"sync/atomic"

	"golang.org/x/tools/go/ssa"

	"symgo/smt"
)

type continuation int

const (
	kNext continuation = iota
	kReturn
	kJump
)

// Mode is a bitmask of options affecting the interpreter.
type Mode uint

const (
	DisableRecover Mode = 1 << iota // Disable recover() in target programs; show interpreter crash instead.
	EnableTracing                   // Print a trace of all instructions as they are interpreted.
)

type methodSet map[string]*ssa.Function

// World is the state shared (read-only after Prepare) by all paths of all harnesses.
type World struct {
	Prog               *ssa.Program
	reflectPackage     *ssa.Package
	errorMethods       methodSet
	rtypeMethods       methodSet
	runtimeErrorString types.Type
	sizes              types.Sizes
	TargetPrefix       string          // import-path prefix of the code under test
	InitStd            map[string]bool // non-target packages whose init is executed (best effort)
	Stubs              map[string]string // function name -> "noop" (contract stubs declared by the spec)
	JSONStub           bool              // encoding/json replaced by the contract stub (jsonstub.go)
	Trace              bool

	extCache sync.Map // *ssa.Function -> externalFn (or nil)
	// QueryCache memoises solver verdicts across paths: key = structural hash of
	// the set of path-condition conjuncts + the extra conjunct + encoding.
	QueryCache sync.Map // queryKey -> queryAns
	CacheHits  atomic.Int64
	NoQueryCache bool
	nameMu   sync.Mutex
	mu       sync.Mutex
	SolverErrors map[string]int
	FirstSolverError string
}

func (w *World) noteSolverError(name string, err error) {
	w.mu.Lock()
	defer w.mu.Unlock()
	if w.SolverErrors == nil {
		w.SolverErrors = map[string]int{}
	}
	w.SolverErrors[name]++
	if w.FirstSolverError == "" {
		w.FirstSolverError = err.Error()
	}
}

// Prepare builds the shared world for prog.
func Prepare(prog *ssa.Program, sizes types.Sizes, targetPrefix string) *World {
	w := &World{Prog: prog, sizes: sizes, TargetPrefix: targetPrefix, InitStd: map[string]bool{}}
	if runtimePkg := prog.ImportedPackage("runtime"); runtimePkg != nil {
		w.runtimeErrorString = runtimePkg.Type("errorString").Object().Type()
	}
	initReflect(w)
	return w
}

func (w *World) external(fn *ssa.Function) externalFn {
	if v, ok := w.extCache.Load(fn); ok {
		if v == nil {
			return nil
		}
		return v.(externalFn)
	}
	w.nameMu.Lock()
	name := fn.String()
	w.nameMu.Unlock()
	ext := externals[name]
	if ext == nil {
		// generic instantiations: match on the origin's name
		if o := fn.Origin(); o != nil {
			ext = externals[o.String()]
		}
	}
	if ext == nil && w.JSONStub {
		ext = jsonStubs[name]
	}
	if ext == nil {
		kind, ok := w.Stubs[name]
		if !ok {
			if o := fn.Origin(); o != nil {
				kind, ok = w.Stubs[o.String()]
			}
		}
		if ok {
			switch kind {
			case "noop", "zero":
				results := fn.Signature.Results()
				ext = func(fr *frame, args []value) value {
					if results.Len() == 0 {
						return nil
					}
					return zero(results)
				}
			case "real":
				ext = nil
			default:
				panic("unknown stub kind " + kind + " for " + name)
			}
		}
	}
	if ext == nil {
		w.extCache.Store(fn, nil)
		return nil
	}
	w.extCache.Store(fn, ext)
	return ext
}

// State of one path.
type interpreter struct {
	w          *World
	prog       *ssa.Program           // the SSA program
	globals    map[*ssa.Global]*value // addresses of global variables, allocated lazily
	mode       Mode                   // interpreter options
	m          *machine
	bestEffort int // >0 while running a non-target package init
	depth      int
}

func (i *interpreter) global(g *ssa.Global) *value {
	if r, ok := i.globals[g]; ok {
		return r
	}
	cell := zero(mustDeref(g.Type()))
	i.globals[g] = &cell
	return &cell
}

func mustDeref(t types.Type) types.Type {
	if p, ok := t.Underlying().(*types.Pointer); ok {
		return p.Elem()
	}
	panic(fmt.Sprintf("mustDeref: %s is not a pointer", t))
}

type deferred struct {
	fn    value
	args  []value
	instr *ssa.Defer
	tail  *deferred
}

type frame struct {
	i                *interpreter
	caller           *frame
	fn               *ssa.Function
	block, prevBlock *ssa.BasicBlock
	env              map[ssa.Value]value // dynamic values of SSA variables
	locals           []value
	defers           *deferred
	result           value
	panicking        bool
	panic            any
	phitemps         []value // temporaries for parallel phi assignment
}

func (fr *frame) get(key ssa.Value) value {
	switch key := key.(type) {
	case nil:
		// Hack; simplifies handling of optional attributes
		// such as ssa.Slice.{Low,High}.
		return nil
	case *ssa.Function, *ssa.Builtin:
		return key
	case *ssa.Const:
		return constValue(key)
	case *ssa.Global:
		return fr.i.global(key)
	}
	if r, ok := fr.env[key]; ok {
		return r
	}
	panic(fmt.Sprintf("get: no value for %T: %v", key, key.Name()))
}

// isAbort reports whether a host panic value is an executor abort that the
// target program must not be able to recover from.
func isAbort(p any) bool {
	switch p.(type) {
	case engineError, pathEnd, *runtime.TypeAssertionError, schedAbort:
		return true
	}
	return false
}

// runDefer runs a deferred call d.
// It always returns normally, but may set or clear fr.panic.
func (fr *frame) runDefer(d *deferred) {
	var ok bool
	defer func() {
		if !ok {
			// Deferred call created a new state of panic.
			p := recover()
			if isAbort(p) {
				panic(p)
			}
			fr.panicking = true
			fr.panic = p
		}
	}()
	call(fr.i, fr, d.instr.Pos(), d.fn, d.args)
	ok = true
}

// runDefers executes fr's deferred function calls in LIFO order.
//
// On entry, fr.panicking indicates a state of panic; if
// true, fr.panic contains the panic value.
//
// On completion, if a deferred call started a panic, or if no
// deferred call recovered from a previous state of panic, then
// runDefers itself panics after the last deferred call has run.
//
// If there was no initial state of panic, or it was recovered from,
// runDefers returns normally.
func (fr *frame) runDefers() {
	for d := fr.defers; d != nil; d = d.tail {
		fr.runDefer(d)
	}
	fr.defers = nil
	if fr.panicking {
		panic(fr.panic) // new panic, or still panicking
	}
}

// lookupMethod returns the method set for type typ, which may be one
// of the interpreter's fake types.
func lookupMethod(i *interpreter, typ types.Type, meth *types.Func) *ssa.Function {
	switch typ {
	case rtypeType:
		return i.w.rtypeMethods[meth.Id()]
	case errorType:
		return i.w.errorMethods[meth.Id()]
	}
	return i.prog.LookupMethod(typ, meth.Pkg(), meth.Name())
}

// index resolves a possibly symbolic index into [0,n).
func (fr *frame) index(idx value, n int) int {
	m := fr.i.m
	if n > 0 {
		if k, ok := m.concretizeInt(idx, 0, int64(n-1)); ok {
			return int(k)
		}
	} else if !isSym(idx) {
		_ = idx
	}
	if isSym(idx) {
		panic(runtimeError(fmt.Sprintf("index out of range [symbolic] with length %d", n)))
	}
	panic(runtimeError(fmt.Sprintf("index out of range [%d] with length %d", asInt64(idx), n)))
}

// visitInstr interprets a single ssa.Instruction within the activation
// record frame.  It returns a continuation value indicating where to
// read the next instruction from.
func visitInstr(fr *frame, instr ssa.Instruction) continuation {
	m := fr.i.m
	switch instr := instr.(type) {
	case *ssa.DebugRef:
		// no-op

	case *ssa.UnOp:
		fr.env[instr] = unop(m, instr, fr.get(instr.X))

	case *ssa.BinOp:
		fr.env[instr] = binop(m, instr.Op, instr.X.Type(), fr.get(instr.X), fr.get(instr.Y))

	case *ssa.Call:
		fn, args := prepareCall(fr, &instr.Call)
		fr.env[instr] = call(fr.i, fr, instr.Pos(), fn, args)

	case *ssa.ChangeInterface:
		fr.env[instr] = fr.get(instr.X)

	case *ssa.ChangeType:
		fr.env[instr] = fr.get(instr.X) // (can't fail)

	case *ssa.Convert:
		fr.env[instr] = conv(m, instr.Type(), instr.X.Type(), fr.get(instr.X))

	case *ssa.SliceToArrayPointer:
		fr.env[instr] = sliceToArrayPointer(instr.Type(), instr.X.Type(), fr.get(instr.X))

	case *ssa.MakeInterface:
		fr.env[instr] = iface{t: instr.X.Type(), v: fr.get(instr.X)}

	case *ssa.Extract:
		fr.env[instr] = fr.get(instr.Tuple).(tuple)[instr.Index]

	case *ssa.Slice:
		fr.env[instr] = slice(m, fr.get(instr.X), fr.get(instr.Low), fr.get(instr.High), fr.get(instr.Max))

	case *ssa.Return:
		switch len(instr.Results) {
		case 0:
		case 1:
			fr.result = fr.get(instr.Results[0])
		default:
			var res []value
			for _, r := range instr.Results {
				res = append(res, fr.get(r))
			}
			fr.result = tuple(res)
		}
		fr.block = nil
		return kReturn

	case *ssa.RunDefers:
		fr.runDefers()

	case *ssa.Panic:
		panic(targetPanic{fr.get(instr.X)})

	case *ssa.Send:
		m.chanSend(fr.get(instr.Chan).(*chanT), fr.get(instr.X))

	case *ssa.Store:
		p := fr.get(instr.Addr).(*value)
		if p == nil {
			panic(runtimeError("invalid memory address or nil pointer dereference"))
		}
		store(mustDeref(instr.Addr.Type()), p, fr.get(instr.Val))

	case *ssa.If:
		succ := 1
		if m.truth(fr.get(instr.Cond)) {
			succ = 0
		}
		fr.prevBlock, fr.block = fr.block, fr.block.Succs[succ]
		return kJump

	case *ssa.Jump:
		fr.prevBlock, fr.block = fr.block, fr.block.Succs[0]
		return kJump

	case *ssa.Defer:
		fn, args := prepareCall(fr, &instr.Call)
		defers := &fr.defers
		if into := fr.get(instr.DeferStack); into != nil {
			defers = into.(**deferred)
		}
		*defers = &deferred{
			fn:    fn,
			args:  args,
			instr: instr,
			tail:  *defers,
		}

	case *ssa.Go:
		fn, args := prepareCall(fr, &instr.Call)
		m.spawn(fr.i, instr, fn, args)

	case *ssa.MakeChan:
		n, ok := m.concretizeInt(fr.get(instr.Size), 0, 1<<20)
		if !ok {
			panic(engineError("make(chan) with an out-of-bound size"))
		}
		fr.env[instr] = m.newChan(int(n))

	case *ssa.Alloc:
		var addr *value
		if instr.Heap {
			// new
			addr = new(value)
			fr.env[instr] = addr
		} else {
			// local
			addr = fr.env[instr].(*value)
		}
		*addr = zero(mustDeref(instr.Type()))

	case *ssa.MakeSlice:
		limit := int64(m.h.MaxMake)
		cp, ok := m.concretizeInt(fr.get(instr.Cap), 0, limit)
		if !ok {
			if isSym(fr.get(instr.Cap)) {
				panic(engineError(fmt.Sprintf("make([]T) with a symbolic capacity that may exceed %d", limit)))
			}
			c := asInt64(fr.get(instr.Cap))
			if c < 0 {
				panic(runtimeError("makeslice: cap out of range"))
			}
			if c > 1<<24 {
				panic(engineError(fmt.Sprintf("make([]T, %d): allocation too large for the executor", c)))
			}
			cp = c
		}
		ln, ok := m.concretizeInt(fr.get(instr.Len), 0, cp)
		if !ok {
			panic(runtimeError("makeslice: len out of range"))
		}
		slice := make([]value, cp)
		tElt := instr.Type().Underlying().(*types.Slice).Elem()
		for i := range slice {
			slice[i] = zero(tElt)
		}
		fr.env[instr] = slice[:ln]

	case *ssa.MakeMap:
		fr.env[instr] = makeMap(instr.Type().Underlying().(*types.Map).Key(), 0)

	case *ssa.Range:
		fr.env[instr] = rangeIter(m, fr.get(instr.X))

	case *ssa.Next:
		fr.env[instr] = fr.get(instr.Iter).(iter).next()

	case *ssa.FieldAddr:
		p := fr.get(instr.X).(*value)
		if p == nil {
			panic(runtimeError("invalid memory address or nil pointer dereference"))
		}
		fr.env[instr] = &(*p).(structure)[instr.Field]

	case *ssa.Field:
		fr.env[instr] = fr.get(instr.X).(structure)[instr.Field]

	case *ssa.IndexAddr:
		x := fr.get(instr.X)
		idx := fr.get(instr.Index)
		switch x := x.(type) {
		case []value:
			fr.env[instr] = &x[fr.index(idx, len(x))]
		case *value: // *array
			if x == nil {
				panic(runtimeError("invalid memory address or nil pointer dereference"))
			}
			a := (*x).(array)
			fr.env[instr] = &a[fr.index(idx, len(a))]
		default:
			panic(fmt.Sprintf("unexpected x type in IndexAddr: %T", x))
		}

	case *ssa.Index:
		x := fr.get(instr.X)
		idx := fr.get(instr.Index)

		switch x := x.(type) {
		case array:
			fr.env[instr] = x[fr.index(idx, len(x))]
		case string:
			fr.env[instr] = x[fr.index(idx, len(x))]
		default:
			panic(fmt.Sprintf("unexpected x type in Index: %T", x))
		}

	case *ssa.Lookup:
		x := fr.get(instr.X)
		if s, ok := x.(string); ok {
			fr.env[instr] = s[fr.index(fr.get(instr.Index), len(s))]
		} else {
			fr.env[instr] = lookup(m, instr, x, fr.get(instr.Index))
		}

	case *ssa.MapUpdate:
		mp := fr.get(instr.Map)
		key := fr.get(instr.Key)
		v := fr.get(instr.Value)
		switch mp := mp.(type) {
		case *omap:
			mp.insert(m, key, v)
		default:
			panic(fmt.Sprintf("illegal map type: %T", mp))
		}

	case *ssa.TypeAssert:
		fr.env[instr] = typeAssert(instr, fr.get(instr.X).(iface))

	case *ssa.MakeClosure:
		var bindings []value
		for _, binding := range instr.Bindings {
			bindings = append(bindings, fr.get(binding))
		}
		fr.env[instr] = &closure{instr.Fn.(*ssa.Function), bindings}

	case *ssa.Phi:
		panic("unreachable") // phis are processed at block entry

	case *ssa.Select:
		fr.env[instr] = m.doSelect(fr, instr)

	default:
		panic(fmt.Sprintf("unexpected instruction: %T", instr))
	}

	return kNext
}

// prepareCall determines the function value and argument values for a
// function call in a Call, Go or Defer instruction, performing
// interface method lookup if needed.
func prepareCall(fr *frame, call *ssa.CallCommon) (fn value, args []value) {
	v := fr.get(call.Value)
	if call.Method == nil {
		// Function call.
		fn = v
	} else {
		// Interface method invocation.
		recv := v.(iface)
		if recv.t == nil {
			panic(runtimeError("invalid memory address or nil pointer dereference (method invoked on nil interface)"))
		}
		if f := lookupMethod(fr.i, recv.t, call.Method); f == nil {
			// Unreachable in well-typed programs.
			panic(fmt.Sprintf("method set for dynamic type %v does not contain %s", recv.t, call.Method))
		} else {
			fn = f
		}
		args = append(args, recv.v)
	}
	for _, arg := range call.Args {
		args = append(args, fr.get(arg))
	}
	return
}

// call interprets a call to a function (function, builtin or closure)
// fn with arguments args, returning its result.
// callpos is the position of the callsite.
func call(i *interpreter, caller *frame, callpos token.Pos, fn value, args []value) value {
	switch fn := fn.(type) {
	case *ssa.Function:
		if fn == nil {
			panic(runtimeError("invalid memory address or nil pointer dereference (call of nil function)")) // nil of func type
		}
		return callSSA(i, caller, callpos, fn, args, nil)
	case *closure:
		return callSSA(i, caller, callpos, fn.Fn, args, fn.Env)
	case *ssa.Builtin:
		return callBuiltin(caller, fn, args)
	case *hostFunc:
		return fn.f(args)
	}
	panic(fmt.Sprintf("cannot call %T", fn))
}

func loc(fset *token.FileSet, pos token.Pos) string {
	if pos == token.NoPos {
		return ""
	}
	return " at " + fset.Position(pos).String()
}

func (i *interpreter) isTargetPkg(p *ssa.Package) bool {
	return p != nil && strings.HasPrefix(p.Pkg.Path(), i.w.TargetPrefix)
}

// callSSA interprets a call to function fn with arguments args,
// and lexical environment env, returning its result.
// callpos is the position of the callsite.
func callSSA(i *interpreter, caller *frame, callpos token.Pos, fn *ssa.Function, args []value, env []value) value {
	if i.w.Trace {
		fset := fn.Prog.Fset
		fmt.Fprintf(os.Stderr, "%*sEntering %s%s.\n", i.depth, "", fn, loc(fset, fn.Pos()))
	}
	fr := &frame{
		i:      i,
		caller: caller, // for panic/recover
		fn:     fn,
	}
	if fn.Parent() == nil {
		if ext := i.w.external(fn); ext != nil {
			if i.m.stubsHit != nil {
				i.m.stubsHit[fn.String()] = true
			}
			return ext(fr, args)
		}
		if fn.Name() == "init" && fn.Pkg != nil && fn.Signature.Recv() == nil && !i.isTargetPkg(fn.Pkg) {
			// package initialiser of a non-target package
			if !i.w.InitStd[fn.Pkg.Pkg.Path()] {
				return nil
			}
			i.bestEffort++
			defer func() { i.bestEffort-- }()
		}
		if fn.Blocks == nil {
			if i.bestEffort > 0 {
				return zero(fn.Signature.Results())
			}
			panic(engineError("no code, intrinsic or stub for function: " + fn.String()))
		}
	}

	// generic function body?
	if fn.TypeParams().Len() > 0 && len(fn.TypeArgs()) == 0 {
		panic(engineError("non-instantiated generic function " + fn.String()))
	}
	if i.m.funcsHit != nil && fn.Pkg != nil {
		i.m.funcsHit[funcKey(fn)] = true
	} else if i.m.funcsHit != nil {
		i.m.funcsHit[funcKey(fn)] = true
	}
	i.depth++
	if i.depth > 600 {
		panic(engineError("call depth exceeds 600 in " + fn.String()))
	}
	defer func() { i.depth-- }()

	fr.env = make(map[ssa.Value]value)
	fr.block = fn.Blocks[0]
	fr.locals = make([]value, len(fn.Locals))
	for i, l := range fn.Locals {
		fr.locals[i] = zero(mustDeref(l.Type()))
		fr.env[l] = &fr.locals[i]
	}
	for i, p := range fn.Params {
		fr.env[p] = args[i]
	}
	for i, fv := range fn.FreeVars {
		fr.env[fv] = env[i]
	}
	for fr.block != nil {
		runFrame(fr)
	}
	return fr.result
}

func funcKey(fn *ssa.Function) string {
	return fn.String()
}

// runFrame executes SSA instructions starting at fr.block and
// continuing until a return, a panic, or a recovered panic.
//
// After a panic, runFrame panics.
//
// After a normal return, fr.result contains the result of the call
// and fr.block is nil.
//
// A recovered panic in a function without named return parameters
// (NRPs) becomes a normal return of the zero value of the function's
// result type.
//
// After a recovered panic in a function with NRPs, fr.result is
// undefined and fr.block contains the block at which to resume
// control.
func runFrame(fr *frame) {
	defer func() {
		if fr.block == nil {
			return // normal return
		}
		p := recover()
		if isAbort(p) {
			panic(p)
		}
		if fr.i.bestEffort > 0 {
			// a failing non-target package initialiser is abandoned silently
			if _, ok := p.(targetPanic); !ok {
				fr.block = nil
				fr.result = zero(fr.fn.Signature.Results())
				return
			}
		}
		fr.panicking = true
		fr.panic = p
		fr.runDefers()
		fr.block = fr.fn.Recover
		if fr.block == nil {
			// recovered, function without named results: return zero value
			fr.result = zero(fr.fn.Signature.Results())
		}
	}()

	m := fr.i.m
	for {
		nonPhis := executePhis(fr)
		m.steps += int64(len(nonPhis))
		if m.steps > m.lim.MaxSteps {
			panic(engineError(fmt.Sprintf("step budget of %d SSA instructions exceeded in %s", m.lim.MaxSteps, fr.fn)))
		}
		for _, instr := range nonPhis {
			if fr.i.w.Trace {
				if v, ok := instr.(ssa.Value); ok {
					fmt.Fprintln(os.Stderr, "\t", v.Name(), "=", instr)
				} else {
					fmt.Fprintln(os.Stderr, "\t", instr)
				}
			}
			if visitInstr(fr, instr) == kReturn {
				return
			}
			// Inv: kNext (continue) or kJump (last instr)
		}
	}
}

// executePhis executes the phi-nodes at the start of the current
// block and returns the non-phi instructions.
func executePhis(fr *frame) []ssa.Instruction {
	firstNonPhi := -1
	for i, instr := range fr.block.Instrs {
		if _, ok := instr.(*ssa.Phi); !ok {
			firstNonPhi = i
			break
		}
	}
	// Inv: 0 <= firstNonPhi; every block contains a non-phi.

	nonPhis := fr.block.Instrs[firstNonPhi:]
	if firstNonPhi > 0 {
		phis := fr.block.Instrs[:firstNonPhi]
		// Execute parallel assignment of phis.
		//
		// See "the swap problem" in Briggs et al's "Practical Improvements
		// to the Construction and Destruction of SSA Form" for discussion.
		predIndex := slices.Index(fr.block.Preds, fr.prevBlock)
		fr.phitemps = fr.phitemps[:0]
		for _, phi := range phis {
			phi := phi.(*ssa.Phi)
			fr.phitemps = append(fr.phitemps, fr.get(phi.Edges[predIndex]))
		}
		for i, phi := range phis {
			fr.env[phi.(*ssa.Phi)] = fr.phitemps[i]
		}
	}
	return nonPhis
}

// doRecover implements the recover() built-in.
func doRecover(caller *frame) value {
	// recover() must be exactly one level beneath the deferred
	// function (two levels beneath the panicking function) to
	// have any effect.  Thus we ignore both "defer recover()" and
	// "defer f() -> g() -> recover()".
	if caller.i.mode&DisableRecover == 0 &&
		caller != nil && !caller.panicking &&
		caller.caller != nil && caller.caller.panicking {
		caller.caller.panicking = false
		p := caller.caller.panic
		caller.caller.panic = nil

		switch p := p.(type) {
		case targetPanic:
			// The target program explicitly called panic().
			return p.v
		case runtimeError:
			return iface{caller.i.w.runtimeErrorString, p.Error()}
		case runtime.Error:
			// The interpreter encountered a runtime error.
			return iface{caller.i.w.runtimeErrorString, p.Error()}
		case string:
			// The interpreter explicitly called panic().
			return iface{caller.i.w.runtimeErrorString, p}
		default:
			panic(fmt.Sprintf("unexpected panic type %T in target call to recover()", p))
		}
	}
	return iface{}
}

var _ = smt.Sat
