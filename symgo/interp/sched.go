package interp

// Locks, wait groups, condition variables, channels and goroutines.
//
// Single-thread model (default): a mutex is an owned/unowned bit, locking an
// owned mutex is a deadlock (reported as a violation); goroutines, blocking
// channel operations and Cond.Wait are unsupported and make the path
// inconclusive. The cooperative scheduler (sched_coop.go) replaces these when
// a harness enables it.

import (
	"fmt"

	"golang.org/x/tools/go/ssa"
)

// fatalError is an unrecoverable target failure (deadlock...).
type fatalError string

// schedAbort unwinds a goroutine of the cooperative scheduler.
type schedAbort struct{ reason string }

// scheduler is the interface of the cooperative scheduler (sched_coop.go).
type scheduler interface {
	yield(what string)
	lock(p *value, shared bool)
	unlock(p *value, shared bool)
	tryLock(p *value) bool
	wgAdd(p *value, d int)
	wgWait(p *value)
	condWait(p *value)
	condSignal(p *value, all bool)
	send(c *chanT, v value)
	recv(c *chanT) (value, bool)
	closed(c *chanT)
	spawn(i *interpreter, instr *ssa.Go, fn value, args []value)
	doSelect(fr *frame, instr *ssa.Select) value
	runMain(f func())
}

type chanT struct {
	buf    []value
	cap    int
	closed bool
	id     int
}

func (m *machine) yield(what string) {
	if m.sched != nil {
		m.sched.yield(what)
	}
}

func (m *machine) lock(p *value, shared bool) {
	if m.sched != nil {
		m.sched.lock(p, shared)
		return
	}
	st := m.locks[p]
	if shared {
		if st < 0 {
			panic(fatalError("deadlock: RLock of a write-locked RWMutex in a single-thread run"))
		}
		m.locks[p] = st + 1
		return
	}
	if st != 0 {
		panic(fatalError("deadlock: Lock of a mutex that is already held (single-thread run)"))
	}
	m.locks[p] = -1
}

func (m *machine) unlock(p *value, shared bool) {
	if m.sched != nil {
		m.sched.unlock(p, shared)
		return
	}
	st := m.locks[p]
	if shared {
		if st <= 0 {
			panic(fatalError("sync: RUnlock of unlocked RWMutex"))
		}
		m.locks[p] = st - 1
		return
	}
	if st != -1 {
		panic(fatalError("sync: unlock of unlocked mutex"))
	}
	m.locks[p] = 0
}

func (m *machine) tryLock(p *value) bool {
	if m.sched != nil {
		return m.sched.tryLock(p)
	}
	if m.locks[p] != 0 {
		return false
	}
	m.locks[p] = -1
	return true
}

func (m *machine) wgAdd(p *value, d int) {
	if m.sched != nil {
		m.sched.wgAdd(p, d)
		return
	}
	m.locks[p] += d
	if m.locks[p] < 0 {
		panic(targetPanic{iface{nil, nil}})
	}
}

func (m *machine) wgWait(p *value) {
	if m.sched != nil {
		m.sched.wgWait(p)
		return
	}
	if m.locks[p] != 0 {
		panic(fatalError("deadlock: WaitGroup.Wait with a non-zero counter in a single-thread run"))
	}
}

func (m *machine) condWait(fr *frame, p *value) {
	if m.sched != nil {
		m.sched.condWait(p)
		return
	}
	panic(fatalError("deadlock: Cond.Wait in a single-thread run"))
}

func (m *machine) condSignal(p *value, all bool) {
	if m.sched != nil {
		m.sched.condSignal(p, all)
	}
}

func (m *machine) newChan(n int) *chanT {
	m.nchans++
	return &chanT{cap: n, id: m.nchans}
}

func (m *machine) chanLen(c *chanT) int {
	if c == nil {
		return 0
	}
	return len(c.buf)
}

func (m *machine) chanSend(c *chanT, v value) {
	if m.sched != nil {
		m.sched.send(c, v)
		return
	}
	if c == nil {
		panic(fatalError("deadlock: send on nil channel"))
	}
	if c.closed {
		panic(runtimeError("send on closed channel"))
	}
	if len(c.buf) >= c.cap {
		panic(fatalError("deadlock: blocking channel send in a single-thread run"))
	}
	c.buf = append(c.buf, v)
}

func (m *machine) chanRecv(c *chanT) (value, bool) {
	if m.sched != nil {
		return m.sched.recv(c)
	}
	if c == nil {
		panic(fatalError("deadlock: receive on nil channel"))
	}
	if len(c.buf) > 0 {
		v := c.buf[0]
		c.buf = c.buf[1:]
		return v, true
	}
	if c.closed {
		return nil, false
	}
	panic(fatalError("deadlock: blocking channel receive in a single-thread run"))
}

func (m *machine) chanClose(c *chanT) {
	if c == nil {
		panic(runtimeError("close of nil channel"))
	}
	if c.closed {
		panic(runtimeError("close of closed channel"))
	}
	c.closed = true
	if m.sched != nil {
		m.sched.closed(c)
	}
}

func (m *machine) spawn(i *interpreter, instr *ssa.Go, fn value, args []value) {
	if m.sched != nil {
		m.sched.spawn(i, instr, fn, args)
		return
	}
	panic(engineError(fmt.Sprintf("go statement at %s: the harness did not enable the scheduler", i.prog.Fset.Position(instr.Pos()))))
}

func (m *machine) doSelect(fr *frame, instr *ssa.Select) value {
	if m.sched != nil {
		return m.sched.doSelect(fr, instr)
	}
	panic(engineError("select statement: the harness did not enable the scheduler"))
}
