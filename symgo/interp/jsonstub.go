package interp

// Contract stub for encoding/json (DESIGN §2.5): Marshal/Unmarshal and
// Encoder/Decoder transfer an abstract JSON tree built from the value's
// exported fields by a type-directed walk that follows encoding/json's
// documented rules (field names and `json:"…"` tags, "-" and omitempty,
// embedded structs, nil slices/maps/pointers as null, custom
// MarshalJSON/UnmarshalJSON methods are CALLED). The byte stream carries an
// opaque token naming the tree. encoding/json itself is trusted; what is
// checked is the code under test around it (hand-written codecs, DTO mapping,
// mismatch guards). Only used by harnesses whose spec enables it; every use is
// listed in the evidence.

import (
	"fmt"
	"go/token"
	"go/types"
	"reflect"
	"sort"
	"strconv"
	"strings"

	"golang.org/x/tools/go/ssa"
)

type jkind int

const (
	jNull jkind = iota
	jBool
	jNum
	jStr
	jArr
	jObj
)

type jnode struct {
	kind jkind
	val  value // scalar (possibly *sym) for jBool/jNum/jStr
	arr  []*jnode
	keys []string
	vals []*jnode
}

const jsonMagic = "\x00SYMGOJSON:"

func (m *machine) jsonToken(n *jnode) []value {
	if m.jsonBlobs == nil {
		m.jsonBlobs = map[int]*jnode{}
	}
	id := len(m.jsonBlobs) + 1
	m.jsonBlobs[id] = n
	s := fmt.Sprintf("%s%d;", jsonMagic, id)
	out := make([]value, len(s))
	for i := 0; i < len(s); i++ {
		out[i] = s[i]
	}
	return out
}

// jsonParseToken finds the first token in data; returns the node and the number of bytes consumed.
func (m *machine) jsonParseToken(data []value) (*jnode, int, error) {
	var sb strings.Builder
	for _, b := range data {
		c, ok := b.(byte)
		if !ok {
			return nil, 0, fmt.Errorf("symbolic byte in JSON stream")
		}
		sb.WriteByte(c)
	}
	s := sb.String()
	start := strings.Index(s, jsonMagic)
	if start < 0 {
		return nil, 0, fmt.Errorf("unexpected end of JSON input")
	}
	if strings.TrimSpace(s[:start]) != "" {
		return nil, 0, fmt.Errorf("invalid character before JSON value")
	}
	end := strings.IndexByte(s[start:], ';')
	if end < 0 {
		return nil, 0, fmt.Errorf("unexpected end of JSON input")
	}
	id, err := strconv.Atoi(s[start+len(jsonMagic) : start+end])
	if err != nil || m.jsonBlobs[id] == nil {
		return nil, 0, fmt.Errorf("corrupt JSON token")
	}
	return m.jsonBlobs[id], start + end + 1, nil
}

func jsonFieldName(f *types.Var, tag string) (name string, skip, omitempty bool) {
	st := reflect.StructTag(tag)
	jt, ok := st.Lookup("json")
	name = f.Name()
	if ok {
		if jt == "-" {
			return "", true, false
		}
		parts := strings.Split(jt, ",")
		if parts[0] != "" {
			name = parts[0]
		}
		for _, p := range parts[1:] {
			if p == "omitempty" {
				omitempty = true
			}
		}
	}
	return name, false, omitempty
}

func (fr *frame) findMethod(t types.Type, name string) *ssa.Function {
	mset := fr.i.prog.MethodSets.MethodSet(t)
	sel := mset.Lookup(nil, name)
	if sel == nil {
		return nil
	}
	return fr.i.prog.MethodValue(sel)
}

func isEmptyJSON(v value) bool {
	switch v := v.(type) {
	case bool:
		return !v
	case string:
		return v == ""
	case []value:
		return len(v) == 0
	case *omap:
		return v.len() == 0
	case *value:
		return v == nil
	case iface:
		return v.t == nil
	case int, int8, int16, int32, int64, uint, uint8, uint16, uint32, uint64, uintptr, float32, float64:
		return reflect.ValueOf(v).IsZero()
	}
	return false
}

func errIface(fr *frame, msg string) value {
	return iface{fr.i.w.errorTypeOrFake(), msg}
}

func (w *World) errorTypeOrFake() types.Type { return errorType }

// jsonEncode builds the tree of v (static type t).
func (fr *frame) jsonEncode(t types.Type, v value) (*jnode, error) {
	// custom marshaler (value receiver, or pointer receiver reachable through a pointer)
	if _, isItf := t.Underlying().(*types.Interface); !isItf {
		if fn := fr.findMethod(t, "MarshalJSON"); fn != nil {
			if p, isPtr := v.(*value); isPtr && p == nil {
				return &jnode{kind: jNull}, nil
			}
			r := call(fr.i, fr, token.NoPos, fn, []value{v}).(tuple)
			if e := r[1].(iface); e.t != nil {
				return nil, fmt.Errorf("MarshalJSON of %s failed", t)
			}
			n, _, err := fr.i.m.jsonParseToken(r[0].([]value))
			return n, err
		}
	}
	switch u := t.Underlying().(type) {
	case *types.Basic:
		switch {
		case u.Info()&types.IsBoolean != 0:
			return &jnode{kind: jBool, val: v}, nil
		case u.Info()&types.IsString != 0:
			return &jnode{kind: jStr, val: v}, nil
		case u.Info()&types.IsNumeric != 0:
			return &jnode{kind: jNum, val: v}, nil
		}
	case *types.Pointer:
		p := v.(*value)
		if p == nil {
			return &jnode{kind: jNull}, nil
		}
		return fr.jsonEncode(u.Elem(), load(u.Elem(), p))
	case *types.Interface:
		itf := v.(iface)
		if itf.t == nil {
			return &jnode{kind: jNull}, nil
		}
		return fr.jsonEncode(itf.t, itf.v)
	case *types.Struct:
		n := &jnode{kind: jObj}
		if err := fr.jsonEncodeStruct(n, u, v.(structure)); err != nil {
			return nil, err
		}
		return n, nil
	case *types.Slice:
		s := v.([]value)
		if s == nil {
			return &jnode{kind: jNull}, nil
		}
		n := &jnode{kind: jArr, arr: []*jnode{}}
		for _, e := range s {
			c, err := fr.jsonEncode(u.Elem(), e)
			if err != nil {
				return nil, err
			}
			n.arr = append(n.arr, c)
		}
		return n, nil
	case *types.Array:
		n := &jnode{kind: jArr, arr: []*jnode{}}
		for _, e := range v.(array) {
			c, err := fr.jsonEncode(u.Elem(), e)
			if err != nil {
				return nil, err
			}
			n.arr = append(n.arr, c)
		}
		return n, nil
	case *types.Map:
		mp := v.(*omap)
		if mp == nil {
			return &jnode{kind: jNull}, nil
		}
		n := &jnode{kind: jObj}
		type kv struct {
			k string
			v value
		}
		var kvs []kv
		for _, e := range mp.ents {
			if !e.live {
				continue
			}
			var ks string
			switch k := e.key.(type) {
			case string:
				ks = k
			case *sym:
				return nil, fmt.Errorf("symbolic map key in JSON encoding")
			default:
				ks = fmt.Sprint(k)
			}
			kvs = append(kvs, kv{ks, e.val})
		}
		sort.Slice(kvs, func(i, j int) bool { return kvs[i].k < kvs[j].k })
		for _, e := range kvs {
			c, err := fr.jsonEncode(u.Elem(), e.v)
			if err != nil {
				return nil, err
			}
			n.keys = append(n.keys, e.k)
			n.vals = append(n.vals, c)
		}
		return n, nil
	}
	return nil, fmt.Errorf("json: unsupported type %s", t)
}

func (fr *frame) jsonEncodeStruct(n *jnode, st *types.Struct, sv structure) error {
	for i := 0; i < st.NumFields(); i++ {
		f := st.Field(i)
		name, skip, omitempty := jsonFieldName(f, st.Tag(i))
		if skip {
			continue
		}
		if f.Embedded() {
			if _, tagged := reflect.StructTag(st.Tag(i)).Lookup("json"); !tagged {
				ft := f.Type()
				fv := sv[i]
				if p, ok := ft.Underlying().(*types.Pointer); ok {
					pv := fv.(*value)
					if pv == nil {
						continue
					}
					ft, fv = p.Elem(), load(p.Elem(), pv)
				}
				if es, ok := ft.Underlying().(*types.Struct); ok {
					if fr.findMethod(ft, "MarshalJSON") == nil {
						if err := fr.jsonEncodeStruct(n, es, fv.(structure)); err != nil {
							return err
						}
						continue
					}
				}
			}
		}
		if !f.Exported() {
			continue
		}
		if omitempty && isEmptyJSON(sv[i]) {
			continue
		}
		c, err := fr.jsonEncode(f.Type(), sv[i])
		if err != nil {
			return err
		}
		n.keys = append(n.keys, name)
		n.vals = append(n.vals, c)
	}
	return nil
}

func (n *jnode) get(name string) *jnode {
	for i, k := range n.keys {
		if k == name {
			return n.vals[i]
		}
	}
	for i, k := range n.keys {
		if strings.EqualFold(k, name) {
			return n.vals[i]
		}
	}
	return nil
}

// jsonDecode stores the tree n into *addr (static type t).
func (fr *frame) jsonDecode(n *jnode, t types.Type, addr *value) error {
	m := fr.i.m
	if _, isItf := t.Underlying().(*types.Interface); !isItf {
		if fn := fr.findMethod(types.NewPointer(t), "UnmarshalJSON"); fn != nil && n.kind != jNull {
			r := call(fr.i, fr, token.NoPos, fn, []value{addr, m.jsonToken(n)})
			if e := r.(iface); e.t != nil {
				return fmt.Errorf("UnmarshalJSON of %s failed", t)
			}
			return nil
		}
	}
	switch u := t.Underlying().(type) {
	case *types.Basic:
		if n.kind == jNull {
			return nil
		}
		want := jNum
		switch {
		case u.Info()&types.IsBoolean != 0:
			want = jBool
		case u.Info()&types.IsString != 0:
			want = jStr
		}
		if n.kind != want {
			return fmt.Errorf("json: cannot unmarshal value into Go value of type %s", t)
		}
		v := n.val
		if want == jNum && kindOfValue(v) != basicKindOf(t) {
			if s, ok := v.(*sym); ok {
				v = m.symConv(basicKindOf(t), s)
			} else {
				v = conv(m, t, types.Typ[kindOfValue(v)], v)
			}
		}
		*addr = v
		return nil
	case *types.Pointer:
		if n.kind == jNull {
			*addr = (*value)(nil)
			return nil
		}
		p := (*addr).(*value)
		if p == nil {
			p = new(value)
			*p = zero(u.Elem())
			*addr = p
		}
		return fr.jsonDecode(n, u.Elem(), p)
	case *types.Interface:
		if n.kind == jNull {
			*addr = iface{}
			return nil
		}
		panic(engineError("json stub: decoding a non-null value into an interface-typed field (" + t.String() + ")"))
	case *types.Struct:
		if n.kind == jNull {
			return nil
		}
		if n.kind != jObj {
			return fmt.Errorf("json: cannot unmarshal non-object into struct %s", t)
		}
		return fr.jsonDecodeStruct(n, u, (*addr).(structure))
	case *types.Slice:
		if n.kind == jNull {
			*addr = []value(nil)
			return nil
		}
		if n.kind != jArr {
			return fmt.Errorf("json: cannot unmarshal non-array into slice %s", t)
		}
		out := make([]value, len(n.arr))
		for i, c := range n.arr {
			out[i] = zero(u.Elem())
			if err := fr.jsonDecode(c, u.Elem(), &out[i]); err != nil {
				return err
			}
		}
		*addr = out
		return nil
	case *types.Array:
		if n.kind == jNull {
			return nil
		}
		if n.kind != jArr {
			return fmt.Errorf("json: cannot unmarshal non-array into array %s", t)
		}
		a := (*addr).(array)
		for i := range a {
			if i < len(n.arr) {
				if err := fr.jsonDecode(n.arr[i], u.Elem(), &a[i]); err != nil {
					return err
				}
			} else {
				a[i] = zero(u.Elem())
			}
		}
		return nil
	case *types.Map:
		if n.kind == jNull {
			*addr = (*omap)(nil)
			return nil
		}
		if n.kind != jObj {
			return fmt.Errorf("json: cannot unmarshal non-object into map %s", t)
		}
		mp := (*addr).(*omap)
		if mp == nil {
			mp = makeMap(u.Key(), 0).(*omap)
			*addr = mp
		}
		for i, k := range n.keys {
			var key value = k
			if b, ok := u.Key().Underlying().(*types.Basic); ok && b.Info()&types.IsInteger != 0 {
				x, err := strconv.ParseInt(k, 10, 64)
				if err != nil {
					ux, err2 := strconv.ParseUint(k, 10, 64)
					if err2 != nil {
						return fmt.Errorf("json: bad map key %q", k)
					}
					key = conv(m, u.Key(), types.Typ[types.Uint64], ux)
				} else {
					key = conv(m, u.Key(), types.Typ[types.Int64], x)
				}
			}
			ev := zero(u.Elem())
			if err := fr.jsonDecode(n.vals[i], u.Elem(), &ev); err != nil {
				return err
			}
			mp.insert(m, key, ev)
		}
		return nil
	}
	return fmt.Errorf("json: unsupported type %s", t)
}

func (fr *frame) jsonDecodeStruct(n *jnode, st *types.Struct, sv structure) error {
	for i := 0; i < st.NumFields(); i++ {
		f := st.Field(i)
		name, skip, _ := jsonFieldName(f, st.Tag(i))
		if skip {
			continue
		}
		if f.Embedded() {
			if _, tagged := reflect.StructTag(st.Tag(i)).Lookup("json"); !tagged {
				ft := f.Type()
				if p, ok := ft.Underlying().(*types.Pointer); ok {
					if es, ok := p.Elem().Underlying().(*types.Struct); ok {
						pv := sv[i].(*value)
						if pv == nil {
							pv = new(value)
							*pv = zero(p.Elem())
							sv[i] = pv
						}
						if err := fr.jsonDecodeStruct(n, es, (*pv).(structure)); err != nil {
							return err
						}
						continue
					}
				} else if es, ok := ft.Underlying().(*types.Struct); ok {
					if fr.findMethod(types.NewPointer(ft), "UnmarshalJSON") == nil {
						if err := fr.jsonDecodeStruct(n, es, sv[i].(structure)); err != nil {
							return err
						}
						continue
					}
				}
			}
		}
		if !f.Exported() {
			continue
		}
		c := n.get(name)
		if c == nil {
			continue
		}
		if err := fr.jsonDecode(c, f.Type(), &sv[i]); err != nil {
			return err
		}
	}
	return nil
}

// ---- the intrinsics ----

func jsonErr(fr *frame, err error) value {
	if err == nil {
		return iface{}
	}
	if ee, ok := err.(engineError); ok {
		panic(ee)
	}
	return iface{errorType, "json: " + err.Error()}
}

func extJSONMarshal(fr *frame, a []value) value {
	itf := a[0].(iface)
	var n *jnode
	var err error
	if itf.t == nil {
		n = &jnode{kind: jNull}
	} else {
		n, err = fr.jsonEncode(itf.t, itf.v)
	}
	if err != nil {
		return tuple{[]value(nil), jsonErr(fr, err)}
	}
	return tuple{fr.i.m.jsonToken(n), iface{}}
}

func extJSONUnmarshal(fr *frame, a []value) value {
	data := a[0].([]value)
	itf := a[1].(iface)
	n, _, err := fr.i.m.jsonParseToken(data)
	if err != nil {
		return jsonErr(fr, err)
	}
	pt, ok := itf.t.Underlying().(*types.Pointer)
	if !ok || itf.v.(*value) == nil {
		return jsonErr(fr, fmt.Errorf("Unmarshal(non-pointer or nil)"))
	}
	return jsonErr(fr, fr.jsonDecode(n, pt.Elem(), itf.v.(*value)))
}

func (fr *frame) newStdStruct(pkg, typ string, field0 value) value {
	p := fr.i.prog.ImportedPackage(pkg)
	if p == nil || p.Type(typ) == nil {
		panic(engineError("json stub: " + pkg + "." + typ + " not loaded"))
	}
	cell := new(value)
	*cell = zero(p.Type(typ).Type())
	(*cell).(structure)[0] = field0
	return cell
}

func extJSONNewEncoder(fr *frame, a []value) value {
	return fr.newStdStruct("encoding/json", "Encoder", a[0])
}

func extJSONNewDecoder(fr *frame, a []value) value {
	return fr.newStdStruct("encoding/json", "Decoder", a[0])
}

func (fr *frame) ioMethod(itf iface, ifaceName, method string) *ssa.Function {
	ioPkg := fr.i.prog.ImportedPackage("io")
	it := ioPkg.Type(ifaceName).Type().Underlying().(*types.Interface)
	for i := 0; i < it.NumMethods(); i++ {
		if it.Method(i).Name() == method {
			return lookupMethod(fr.i, itf.t, it.Method(i))
		}
	}
	return nil
}

func extJSONEncode(fr *frame, a []value) value {
	enc := (*a[0].(*value)).(structure)
	w := enc[0].(iface)
	itf := a[1].(iface)
	var n *jnode
	var err error
	if itf.t == nil {
		n = &jnode{kind: jNull}
	} else {
		n, err = fr.jsonEncode(itf.t, itf.v)
	}
	if err != nil {
		return jsonErr(fr, err)
	}
	tok := append(fr.i.m.jsonToken(n), byte('\n'))
	fn := fr.ioMethod(w, "Writer", "Write")
	r := call(fr.i, fr, token.NoPos, fn, []value{w.v, tok}).(tuple)
	return r[1]
}

func extJSONDecode(fr *frame, a []value) value {
	m := fr.i.m
	decp := a[0].(*value)
	dec := (*decp).(structure)
	r := dec[0].(iface)
	itf := a[1].(iface)
	if m.jsonDecBuf == nil {
		m.jsonDecBuf = map[*value][]value{}
	}
	buf := m.jsonDecBuf[decp]
	fn := fr.ioMethod(r, "Reader", "Read")
	for tries := 0; tries < 64; tries++ {
		if n, used, err := m.jsonParseToken(buf); err == nil {
			m.jsonDecBuf[decp] = buf[used:]
			pt, ok := itf.t.Underlying().(*types.Pointer)
			if !ok || itf.v.(*value) == nil {
				return jsonErr(fr, fmt.Errorf("Decode(non-pointer or nil)"))
			}
			return jsonErr(fr, fr.jsonDecode(n, pt.Elem(), itf.v.(*value)))
		}
		chunk := make([]value, 512)
		for i := range chunk {
			chunk[i] = byte(0)
		}
		res := call(fr.i, fr, token.NoPos, fn, []value{r.v, chunk}).(tuple)
		nread := res[0].(int)
		buf = append(buf, chunk[:nread]...)
		if e := res[1].(iface); e.t != nil {
			m.jsonDecBuf[decp] = buf
			if n, used, err := m.jsonParseToken(buf); err == nil {
				m.jsonDecBuf[decp] = buf[used:]
				pt := itf.t.Underlying().(*types.Pointer)
				return jsonErr(fr, fr.jsonDecode(n, pt.Elem(), itf.v.(*value)))
			}
			if len(buf) == 0 {
				return res[1] // io.EOF
			}
			return jsonErr(fr, fmt.Errorf("unexpected end of JSON input"))
		}
		if nread == 0 {
			break
		}
	}
	return jsonErr(fr, fmt.Errorf("unexpected end of JSON input"))
}

func init() {
	jsonStubs = map[string]externalFn{
		"encoding/json.Marshal":           extJSONMarshal,
		"encoding/json.Unmarshal":         extJSONUnmarshal,
		"encoding/json.NewEncoder":        extJSONNewEncoder,
		"encoding/json.NewDecoder":        extJSONNewDecoder,
		"(*encoding/json.Encoder).Encode": extJSONEncode,
		"(*encoding/json.Decoder).Decode": extJSONDecode,
	}
}

// canon renders a tree canonically; symbolic leaves are rendered by term
// identity, so equal trees (same terms) render equally.
func (n *jnode) canon(sb *strings.Builder) {
	switch n.kind {
	case jNull:
		sb.WriteString("null")
	case jBool, jNum, jStr:
		if s, ok := n.val.(*sym); ok {
			fmt.Fprintf(sb, "<t%d>", s.t.ID)
		} else {
			fmt.Fprintf(sb, "%#v", n.val)
		}
	case jArr:
		sb.WriteByte('[')
		for i, c := range n.arr {
			if i > 0 {
				sb.WriteByte(',')
			}
			c.canon(sb)
		}
		sb.WriteByte(']')
	case jObj:
		sb.WriteByte('{')
		for i, k := range n.keys {
			if i > 0 {
				sb.WriteByte(',')
			}
			fmt.Fprintf(sb, "%q:", k)
			n.vals[i].canon(sb)
		}
		sb.WriteByte('}')
	}
}

// extSHA256 is the contract stub of crypto/sha256.Sum256: a deterministic,
// collision-free-in-practice function of the input bytes. JSON tokens inside
// the input are replaced by the canonical rendering of their trees, so two
// encodings of equal values hash equally (as with real JSON bytes).
func extSHA256(fr *frame, a []value) value {
	m := fr.i.m
	var sb strings.Builder
	data := a[0].([]value)
	var raw strings.Builder
	for _, b := range data {
		c, ok := b.(byte)
		if !ok {
			panic(engineError("sha256 of symbolic bytes"))
		}
		raw.WriteByte(c)
	}
	s := raw.String()
	for {
		i := strings.Index(s, jsonMagic)
		if i < 0 {
			sb.WriteString(s)
			break
		}
		sb.WriteString(s[:i])
		end := strings.IndexByte(s[i:], ';')
		id, _ := strconv.Atoi(s[i+len(jsonMagic) : i+end])
		if n := m.jsonBlobs[id]; n != nil {
			n.canon(&sb)
		}
		s = s[i+end+1:]
	}
	sum := sha256Sum([]byte(sb.String()))
	out := make(array, 32)
	for i := range out {
		out[i] = sum[i]
	}
	return out
}

// jsonStubs are installed only when the spec asks for the "json" contract stub.
var jsonStubs map[string]externalFn
