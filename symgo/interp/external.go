// Copyright 2013 The Go Authors. All rights reserved.
// Use of this source code is governed by a BSD-style
// license that can be found in the LICENSE file.

package interp

// Intrinsics and stubs: functions that are not interpreted from their SSA
// bodies. Every interception that fires on a path is recorded and ends up in
// the evidence (it is part of the trusted base of a check).

import (
	"fmt"
	"go/token"
	"go/types"
	"math"
	"sort"
	"strconv"
	"strings"

	"golang.org/x/tools/go/ssa"

	"symgo/smt"
)

type externalFn func(fr *frame, args []value) value

// hostFunc is a callable value implemented by the executor (used to hand
// closures such as a slice swapper to interpreted standard-library code).
type hostFunc struct {
	f func(args []value) value
}

// Key strings are from Function.String().
var externals = make(map[string]externalFn)

const rtPkg = "github.com/sarchlab/akita/v5/internal/verifrt."

func noop(fr *frame, args []value) value { return nil }

func init() {
	for k, v := range map[string]externalFn{
		// --- reflect (minimal) ---
		"(reflect.rtype).Elem":    ext۰reflect۰rtype۰Elem,
		"(reflect.rtype).Kind":    ext۰reflect۰rtype۰Kind,
		"(reflect.rtype).String":  ext۰reflect۰rtype۰String,
		"(reflect.rtype).Name":    ext۰reflect۰rtype۰Name,
		"(reflect.rtype).PkgPath": ext۰reflect۰rtype۰PkgPath,
		"(reflect.error).Error":   ext۰reflect۰error۰Error,
		"reflect.TypeOf":          ext۰reflect۰TypeOf,

		// --- verifrt ---
		rtPkg + "Bool":        func(fr *frame, a []value) value { return fr.i.m.newInput(a[0].(string), types.Bool) },
		rtPkg + "Byte":        func(fr *frame, a []value) value { return fr.i.m.newInput(a[0].(string), types.Uint8) },
		rtPkg + "Uint8":       func(fr *frame, a []value) value { return fr.i.m.newInput(a[0].(string), types.Uint8) },
		rtPkg + "Uint16":      func(fr *frame, a []value) value { return fr.i.m.newInput(a[0].(string), types.Uint16) },
		rtPkg + "Uint32":      func(fr *frame, a []value) value { return fr.i.m.newInput(a[0].(string), types.Uint32) },
		rtPkg + "Uint64":      func(fr *frame, a []value) value { return fr.i.m.newInput(a[0].(string), types.Uint64) },
		rtPkg + "Uint":        func(fr *frame, a []value) value { return fr.i.m.newInput(a[0].(string), types.Uint) },
		rtPkg + "Int":         func(fr *frame, a []value) value { return fr.i.m.newInput(a[0].(string), types.Int) },
		rtPkg + "Int32":       func(fr *frame, a []value) value { return fr.i.m.newInput(a[0].(string), types.Int32) },
		rtPkg + "Int64":       func(fr *frame, a []value) value { return fr.i.m.newInput(a[0].(string), types.Int64) },
		rtPkg + "IntRange":    extIntRange,
		rtPkg + "Uint64Range": extUint64Range,
		rtPkg + "Choice":      func(fr *frame, a []value) value { return fr.i.m.newChoice(a[0].(string), a[1].(int)) },
		rtPkg + "Assume":      func(fr *frame, a []value) value { fr.i.m.assume(a[0]); return nil },
		rtPkg + "Assert":      func(fr *frame, a []value) value { fr.i.m.assert(a[0], a[1].(string)); return nil },
		rtPkg + "Cover":       func(fr *frame, a []value) value { fr.i.m.covers[a[0].(string)] = true; return nil },
		rtPkg + "Observe":     extObserve,
		rtPkg + "And":         func(fr *frame, a []value) value { return andV(fr.i.m, a[0], a[1]) },
		rtPkg + "Or": func(fr *frame, a []value) value {
			m := fr.i.m
			return notV(m, andV(m, notV(m, a[0]), notV(m, a[1])))
		},
		rtPkg + "Implies": func(fr *frame, a []value) value {
			m := fr.i.m
			return notV(m, andV(m, a[0], notV(m, a[1])))
		},
		rtPkg + "Not":      func(fr *frame, a []value) value { return notV(fr.i.m, a[0]) },
		rtPkg + "IteU64":   extIte,
		rtPkg + "IteInt":   extIte,
		rtPkg + "Thorough": func(fr *frame, a []value) value { return fr.i.m.h.Thorough },
		rtPkg + "Bound": func(fr *frame, a []value) value {
			if fr.i.m.h.Thorough {
				return a[2]
			}
			return a[1]
		},
		rtPkg + "Concretize": func(fr *frame, a []value) value {
			lo, hi := a[1].(int), a[2].(int)
			v, ok := fr.i.m.concretizeInt(a[0], int64(lo), int64(hi))
			if !ok {
				panic(pathEnd{"Concretize: value outside the stated range"})
			}
			return int(v)
		},
		rtPkg + "Symbolic": func(fr *frame, a []value) value { return !fr.i.m.isConcrete },
		rtPkg + "Yield":    func(fr *frame, a []value) value { fr.i.m.yield("Yield"); return nil },
		rtPkg + "Jitter":   func(fr *frame, a []value) value { return nil },
		rtPkg + "Stress":   func(fr *frame, a []value) value { return a[0] },

		// --- logging / printing: no-ops; log.Panic* ≡ panic ---
		"log.Print":    noop,
		"log.Printf":   noop,
		"log.Println":  noop,
		"fmt.Print":    func(fr *frame, a []value) value { return tuple{0, iface{}} },
		"fmt.Printf":   func(fr *frame, a []value) value { return tuple{0, iface{}} },
		"fmt.Println":  func(fr *frame, a []value) value { return tuple{0, iface{}} },
		"fmt.Fprint":   func(fr *frame, a []value) value { return tuple{0, iface{}} },
		"fmt.Fprintf":  func(fr *frame, a []value) value { return tuple{0, iface{}} },
		"fmt.Fprintln": func(fr *frame, a []value) value { return tuple{0, iface{}} },
		"log.Panic": func(fr *frame, a []value) value {
			panic(targetPanic{iface{types.Typ[types.String], sprint(fr, a[0].([]value), false)}})
		},
		"log.Panicln": func(fr *frame, a []value) value {
			panic(targetPanic{iface{types.Typ[types.String], sprint(fr, a[0].([]value), true)}})
		},
		"log.Panicf": func(fr *frame, a []value) value {
			panic(targetPanic{iface{types.Typ[types.String], sprintf(fr, a[0].(string), a[1].([]value))}})
		},
		"log.Fatal": func(fr *frame, a []value) value {
			panic(targetPanic{iface{types.Typ[types.String], "log.Fatal: " + sprint(fr, a[0].([]value), false)}})
		},
		"log.Fatalf": func(fr *frame, a []value) value {
			panic(targetPanic{iface{types.Typ[types.String], "log.Fatalf: " + sprintf(fr, a[0].(string), a[1].([]value))}})
		},
		"fmt.Sprintf":  func(fr *frame, a []value) value { return sprintf(fr, a[0].(string), a[1].([]value)) },
		"fmt.Sprint":   func(fr *frame, a []value) value { return sprint(fr, a[0].([]value), false) },
		"fmt.Sprintln": func(fr *frame, a []value) value { return sprint(fr, a[0].([]value), true) + "\n" },
		"fmt.Errorf":   extErrorf,
		"os.Exit": func(fr *frame, a []value) value {
			panic(targetPanic{iface{types.Typ[types.String], fmt.Sprintf("os.Exit(%v)", a[0])}})
		},

		// --- sync: single-thread models (the scheduler overrides them when enabled) ---
		"(*sync.Mutex).Lock":      func(fr *frame, a []value) value { fr.i.m.lock(a[0].(*value), false); return nil },
		"(*sync.Mutex).Unlock":    func(fr *frame, a []value) value { fr.i.m.unlock(a[0].(*value), false); return nil },
		"(*sync.Mutex).TryLock":   func(fr *frame, a []value) value { return fr.i.m.tryLock(a[0].(*value)) },
		"(*sync.RWMutex).Lock":    func(fr *frame, a []value) value { fr.i.m.lock(a[0].(*value), false); return nil },
		"(*sync.RWMutex).Unlock":  func(fr *frame, a []value) value { fr.i.m.unlock(a[0].(*value), false); return nil },
		"(*sync.RWMutex).RLock":   func(fr *frame, a []value) value { fr.i.m.lock(a[0].(*value), true); return nil },
		"(*sync.RWMutex).RUnlock": func(fr *frame, a []value) value { fr.i.m.unlock(a[0].(*value), true); return nil },
		"(*sync.WaitGroup).Add":   func(fr *frame, a []value) value { fr.i.m.wgAdd(a[0].(*value), a[1].(int)); return nil },
		"(*sync.WaitGroup).Done":  func(fr *frame, a []value) value { fr.i.m.wgAdd(a[0].(*value), -1); return nil },
		"(*sync.WaitGroup).Wait":  func(fr *frame, a []value) value { fr.i.m.wgWait(a[0].(*value)); return nil },
		"(*sync.Cond).Wait":       func(fr *frame, a []value) value { fr.i.m.condWait(fr, a[0].(*value)); return nil },
		"(*sync.Cond).Signal":     func(fr *frame, a []value) value { fr.i.m.condSignal(a[0].(*value), false); return nil },
		"(*sync.Cond).Broadcast":  func(fr *frame, a []value) value { fr.i.m.condSignal(a[0].(*value), true); return nil },
		"(*sync.Once).Do":         extOnceDo,
		// unique.Make: handles are pointers to one canonical cell per distinct value
		// (the real implementation uses weak maps and runtime internals)
		"unique.Make": func(fr *frame, a []value) value {
			m := fr.i.m
			t := fr.fn.Signature.Params().At(0).Type()
			for _, u := range m.uniq {
				if types.Identical(u.t, t) {
					if eq, ok := equalsV(m, t, *u.cell, a[0]).(bool); ok && eq {
						return structure{u.cell}
					}
				}
			}
			v := copyVal(a[0])
			cell := &v
			m.uniq = append(m.uniq, uniqEntry{t, cell})
			return structure{cell}
		},

		// --- sync/atomic ---
		"sync/atomic.LoadInt32":   atomicLoad,
		"sync/atomic.LoadInt64":   atomicLoad,
		"sync/atomic.LoadUint32":  atomicLoad,
		"sync/atomic.LoadUint64":  atomicLoad,
		"sync/atomic.StoreInt32":  atomicStore,
		"sync/atomic.StoreInt64":  atomicStore,
		"sync/atomic.StoreUint32": atomicStore,
		"sync/atomic.StoreUint64": atomicStore,
		"sync/atomic.AddInt32":    atomicAdd,
		"sync/atomic.AddInt64":    atomicAdd,
		"sync/atomic.AddUint32":   atomicAdd,
		"sync/atomic.AddUint64":   atomicAdd,
		"sync/atomic.CompareAndSwapInt32":  atomicCAS,
		"sync/atomic.CompareAndSwapInt64":  atomicCAS,
		"sync/atomic.CompareAndSwapUint32": atomicCAS,
		"sync/atomic.CompareAndSwapUint64": atomicCAS,

		// --- runtime ---
		"runtime.GOMAXPROCS": func(fr *frame, a []value) value { return fr.i.m.h.GoMaxProcs },
		"runtime.NumCPU":     func(fr *frame, a []value) value { return fr.i.m.h.GoMaxProcs },
		"runtime.Gosched":    func(fr *frame, a []value) value { fr.i.m.yield("Gosched"); return nil },
		"runtime.GC":         noop,
		"runtime.Stack":      func(fr *frame, a []value) value { return 0 },
		"runtime/debug.Stack": func(fr *frame, a []value) value { return []value(nil) },

		// --- sort ---
		"sort.Slice":       extSortSlice,
		"sort.SliceStable": extSortSliceStable,

		// --- strings / strconv / bytes on concrete data ---
		"strings.Index":     func(fr *frame, a []value) value { return strings.Index(a[0].(string), a[1].(string)) },
		"strings.IndexByte": func(fr *frame, a []value) value { return strings.IndexByte(a[0].(string), a[1].(byte)) },
		"strings.Contains":  func(fr *frame, a []value) value { return strings.Contains(a[0].(string), a[1].(string)) },
		"strings.Count":     func(fr *frame, a []value) value { return strings.Count(a[0].(string), a[1].(string)) },
		"strings.HasPrefix": func(fr *frame, a []value) value { return strings.HasPrefix(a[0].(string), a[1].(string)) },
		"strings.HasSuffix": func(fr *frame, a []value) value { return strings.HasSuffix(a[0].(string), a[1].(string)) },
		"strings.ToLower":   func(fr *frame, a []value) value { return strings.ToLower(a[0].(string)) },
		"strings.ToUpper":   func(fr *frame, a []value) value { return strings.ToUpper(a[0].(string)) },
		"strings.TrimSpace": func(fr *frame, a []value) value { return strings.TrimSpace(a[0].(string)) },
		"strings.EqualFold": func(fr *frame, a []value) value { return strings.EqualFold(a[0].(string), a[1].(string)) },
		"strings.Repeat":    func(fr *frame, a []value) value { return strings.Repeat(a[0].(string), a[1].(int)) },
		"strings.LastIndex": func(fr *frame, a []value) value { return strings.LastIndex(a[0].(string), a[1].(string)) },
		"strings.Replace": func(fr *frame, a []value) value {
			return strings.Replace(a[0].(string), a[1].(string), a[2].(string), a[3].(int))
		},
		"strings.ReplaceAll": func(fr *frame, a []value) value {
			return strings.ReplaceAll(a[0].(string), a[1].(string), a[2].(string))
		},
		"strings.TrimPrefix": func(fr *frame, a []value) value { return strings.TrimPrefix(a[0].(string), a[1].(string)) },
		"strings.TrimSuffix": func(fr *frame, a []value) value { return strings.TrimSuffix(a[0].(string), a[1].(string)) },
		"strings.Split": func(fr *frame, a []value) value {
			return stringsToValue(strings.Split(a[0].(string), a[1].(string)))
		},
		"strings.Fields": func(fr *frame, a []value) value { return stringsToValue(strings.Fields(a[0].(string))) },
		"strings.Join": func(fr *frame, a []value) value {
			var parts []string
			for _, p := range a[0].([]value) {
				parts = append(parts, p.(string))
			}
			return strings.Join(parts, a[1].(string))
		},
		"strconv.Itoa": func(fr *frame, a []value) value { return strconv.Itoa(a[0].(int)) },
		"strconv.Atoi": func(fr *frame, a []value) value {
			i, e := strconv.Atoi(a[0].(string))
			if e != nil {
				return tuple{i, iface{fr.i.w.runtimeErrorString, e.Error()}}
			}
			return tuple{i, iface{}}
		},
		"strconv.FormatUint": func(fr *frame, a []value) value { return strconv.FormatUint(a[0].(uint64), a[1].(int)) },
		"strconv.FormatInt":  func(fr *frame, a []value) value { return strconv.FormatInt(a[0].(int64), a[1].(int)) },
		"bytes.Equal":        extBytesEqual,
		"internal/bytealg.Equal": extBytesEqual,

		// --- math ---
		"math.Ceil":  extMathUnary(smt.OFCeil, math.Ceil),
		"math.Floor": extMathUnary(smt.OFFloor, math.Floor),
		"math.Inf":   func(fr *frame, a []value) value { return math.Inf(a[0].(int)) },
		"math.NaN":   func(fr *frame, a []value) value { return math.NaN() },
		"math.IsNaN": func(fr *frame, a []value) value { return math.IsNaN(a[0].(float64)) },
		"math.IsInf": func(fr *frame, a []value) value { return math.IsInf(a[0].(float64), a[1].(int)) },
		"math.Abs":   func(fr *frame, a []value) value { return math.Abs(a[0].(float64)) },
		"math.Sqrt":  func(fr *frame, a []value) value { return math.Sqrt(a[0].(float64)) },
		"math.Round": func(fr *frame, a []value) value { return math.Round(a[0].(float64)) },
		"math.Trunc": func(fr *frame, a []value) value { return math.Trunc(a[0].(float64)) },
		"math.Log2":  func(fr *frame, a []value) value { return math.Log2(a[0].(float64)) },
		"math.Log":   func(fr *frame, a []value) value { return math.Log(a[0].(float64)) },
		"math.Pow":   func(fr *frame, a []value) value { return math.Pow(a[0].(float64), a[1].(float64)) },
		"math.Float64bits":     func(fr *frame, a []value) value { return math.Float64bits(a[0].(float64)) },
		"math.Float64frombits": func(fr *frame, a []value) value { return math.Float64frombits(a[0].(uint64)) },
		"math.Float32bits":     func(fr *frame, a []value) value { return math.Float32bits(a[0].(float32)) },
		"math.Float32frombits": func(fr *frame, a []value) value { return math.Float32frombits(a[0].(uint32)) },
		"math/bits.Len64": func(fr *frame, a []value) value { return bitsLen(a[0].(uint64)) },
		"math/bits.Len":   func(fr *frame, a []value) value { return bitsLen(uint64(a[0].(uint))) },
		"crypto/sha256.Sum256": extSHA256,
	} {
		externals[k] = v
	}
}

func bitsLen(x uint64) int {
	n := 0
	for ; x != 0; x >>= 1 {
		n++
	}
	return n
}

func stringsToValue(ss []string) value {
	out := make([]value, len(ss))
	for i, s := range ss {
		out[i] = s
	}
	return out
}

func extBytesEqual(fr *frame, args []value) value {
	a := args[0].([]value)
	b := args[1].([]value)
	if len(a) != len(b) {
		return false
	}
	m := fr.i.m
	var acc value = true
	for i := range a {
		acc = andV(m, acc, equalsV(m, types.Typ[types.Uint8], a[i], b[i]))
		if bb, ok := acc.(bool); ok && !bb {
			return false
		}
	}
	return acc
}

func extMathUnary(op smt.Op, f func(float64) float64) externalFn {
	return func(fr *frame, a []value) value {
		if s, ok := a[0].(*sym); ok {
			return wrapTerm(fr.i.m.ctx.FUn(op, s.t), types.Float64)
		}
		return f(a[0].(float64))
	}
}

func extIntRange(fr *frame, a []value) value {
	m := fr.i.m
	v := m.newInput(a[0].(string), types.Int)
	lo, hi := a[1], a[2]
	m.assume(andV(m, binop(m, token.LEQ, nil, lo, v), binop(m, token.LEQ, nil, v, hi)))
	return v
}

func extUint64Range(fr *frame, a []value) value {
	m := fr.i.m
	v := m.newInput(a[0].(string), types.Uint64)
	lo, hi := a[1], a[2]
	m.assume(andV(m, binop(m, token.LEQ, nil, lo, v), binop(m, token.LEQ, nil, v, hi)))
	return v
}

func extIte(fr *frame, a []value) value {
	m := fr.i.m
	if b, ok := a[0].(bool); ok {
		if b {
			return a[1]
		}
		return a[2]
	}
	k := kindOfValue(a[1])
	return wrapTerm(m.ctx.Ite(a[0].(*sym).t, m.lift(a[1]), m.lift(a[2])), k)
}

func extObserve(fr *frame, a []value) value {
	m := fr.i.m
	v := a[1].(iface).v
	m.observes = append(m.observes, Obs{Label: a[0].(string), Val: v})
	return nil
}

func extOnceDo(fr *frame, a []value) value {
	m := fr.i.m
	p := a[0].(*value)
	if m.onces == nil {
		m.onces = map[*value]bool{}
	}
	if m.onces[p] {
		return nil
	}
	m.onces[p] = true
	call(fr.i, fr, token.NoPos, a[1], nil)
	return nil
}

// ---- fmt ----

type hostStringer struct{ s string }

func (h hostStringer) String() string { return h.s }

// hostArg converts an interpreted `any` argument into something fmt can print.
func hostArg(fr *frame, arg value) any {
	itf, ok := arg.(iface)
	if !ok {
		return toString(arg)
	}
	if itf.t == nil {
		return nil
	}
	// Error() / String() methods of the dynamic type are honoured.
	for _, name := range []string{"Error", "String"} {
		if _, isBasic := itf.t.(*types.Basic); isBasic {
			break
		}
		if itf.t == errorType {
			return hostStringer{itf.v.(string)}
		}
		if itf.t == rtypeType {
			return hostStringer{typeString(itf.v.(rtype).t)}
		}
		mset := fr.i.prog.MethodSets.MethodSet(itf.t)
		sel := mset.Lookup(nil, name)
		if sel == nil {
			continue
		}
		sig := sel.Type().(*types.Signature)
		if sig.Params().Len() != 0 || sig.Results().Len() != 1 {
			continue
		}
		if b, ok := sig.Results().At(0).Type().(*types.Basic); !ok || b.Kind() != types.String {
			continue
		}
		fn := fr.i.prog.MethodValue(sel)
		if fn == nil {
			continue
		}
		if p, isPtr := itf.v.(*value); isPtr && p == nil {
			return "<nil>"
		}
		r := call(fr.i, fr, token.NoPos, fn, []value{itf.v})
		if s, ok := r.(string); ok {
			return hostStringer{s}
		}
	}
	switch v := itf.v.(type) {
	case bool, int, int8, int16, int32, int64, uint, uint8, uint16, uint32, uint64, uintptr, float32, float64, string, complex64, complex128:
		return v
	case *sym:
		// A value that has exactly one feasible value under the path condition
		// (e.g. a page base computed from base+offset) is printed as that value:
		// formatted strings may be data (map keys). A truly symbolic value is
		// printed as a recognisable placeholder; using such a string as a map
		// key is an engine error (map.go), never a silent mismatch.
		if cv, ok := fr.i.m.uniqueValue(v); ok {
			return cv
		}
		return hostStringer{symPlaceholder}
	case []value:
		// []byte / []string etc.
		out := make([]any, len(v))
		for i, e := range v {
			switch e := e.(type) {
			case bool, int, int8, int16, int32, int64, uint, uint8, uint16, uint32, uint64, uintptr, float32, float64, string:
				out[i] = e
			default:
				out[i] = hostStringer{toString(e)}
			}
		}
		return out
	case *value:
		if v == nil {
			return hostStringer{"<nil>"}
		}
		return hostStringer{fmt.Sprintf("%p", v)}
	}
	return hostStringer{toString(itf.v)}
}

func sprintf(fr *frame, format string, args []value) string {
	hs := make([]any, len(args))
	for i, a := range args {
		hs[i] = hostArg(fr, a)
	}
	// %T must print the target program's dynamic type, not the executor's
	// representation: rewrite each %T into %s with the type name as operand.
	if strings.Contains(format, "%T") {
		var sb strings.Builder
		arg := 0
		for i := 0; i < len(format); i++ {
			if format[i] != '%' {
				sb.WriteByte(format[i])
				continue
			}
			j := i + 1
			for j < len(format) && strings.ContainsRune("+-# 0123456789.", rune(format[j])) {
				j++
			}
			if j >= len(format) {
				sb.WriteString(format[i:])
				break
			}
			if format[j] == '%' {
				sb.WriteString(format[i : j+1])
				i = j
				continue
			}
			if format[j] == 'T' && arg < len(args) {
				name := "<nil>"
				if itf, ok := args[arg].(iface); ok && itf.t != nil {
					name = typeString(itf.t)
				}
				hs[arg] = name
				sb.WriteString("%s")
			} else {
				sb.WriteString(format[i : j+1])
			}
			arg++
			i = j
		}
		format = sb.String()
	}
	return fmt.Sprintf(format, hs...)
}

func sprint(fr *frame, args []value, ln bool) string {
	hs := make([]any, len(args))
	for i, a := range args {
		hs[i] = hostArg(fr, a)
	}
	if ln {
		s := fmt.Sprintln(hs...)
		return s[:len(s)-1]
	}
	return fmt.Sprint(hs...)
}

// extErrorf builds a real *fmt.wrapError (when %w is used) or *errors.errorString.
func extErrorf(fr *frame, a []value) value {
	format := a[0].(string)
	args := a[1].([]value)
	msg := sprintf(fr, strings.ReplaceAll(format, "%w", "%v"), args)
	prog := fr.i.prog
	if strings.Contains(format, "%w") {
		// find the wrapped error argument: first arg that is an error-typed iface
		var wrapped value = iface{}
		idx := 0
		for i := 0; i < len(format)-1; i++ {
			if format[i] != '%' {
				continue
			}
			if format[i+1] == '%' {
				i++
				continue
			}
			j := i + 1
			for j < len(format) && strings.ContainsRune("+-# 0123456789.", rune(format[j])) {
				j++
			}
			if j < len(format) && format[j] == 'w' && idx < len(args) {
				wrapped = args[idx]
				break
			}
			idx++
			i = j
		}
		if fmtPkg := prog.ImportedPackage("fmt"); fmtPkg != nil {
			if t := fmtPkg.Type("wrapError"); t != nil {
				var cell value = structure{msg, wrapped}
				return iface{types.NewPointer(t.Type()), &cell}
			}
		}
	}
	if errPkg := prog.ImportedPackage("errors"); errPkg != nil {
		if t := errPkg.Type("errorString"); t != nil {
			var cell value = structure{msg}
			return iface{types.NewPointer(t.Type()), &cell}
		}
	}
	return iface{errorType, msg}
}

// ---- sort.Slice: the real pdqsort is interpreted; only the reflection-based
// swapper is supplied by the executor, so ties come out as in the native run.

func sortSliceCommon(fr *frame, a []value, stable bool) value {
	x := a[0].(iface).v.([]value)
	less := a[1]
	swap := &hostFunc{f: func(args []value) value {
		i, j := args[0].(int), args[1].(int)
		x[i], x[j] = x[j], x[i]
		return nil
	}}
	sortPkg := fr.i.prog.ImportedPackage("sort")
	if sortPkg == nil {
		panic(engineError("sort package not loaded"))
	}
	ls := structure{less, swap} // sort.lessSwap{Less, Swap}
	n := len(x)
	if stable {
		fn := sortPkg.Func("stable_func")
		if fn == nil {
			panic(engineError("sort.stable_func not found"))
		}
		call(fr.i, fr, token.NoPos, fn, []value{ls, n})
		return nil
	}
	fn := sortPkg.Func("pdqsort_func")
	if fn == nil {
		panic(engineError("sort.pdqsort_func not found"))
	}
	call(fr.i, fr, token.NoPos, fn, []value{ls, 0, n, bitsLen(uint64(n))})
	return nil
}

func extSortSlice(fr *frame, a []value) value       { return sortSliceCommon(fr, a, false) }
func extSortSliceStable(fr *frame, a []value) value { return sortSliceCommon(fr, a, true) }

var _ = sort.Ints
var _ *ssa.Function

// ---- sync/atomic on boxed cells (atomic by construction: one thread runs at a time) ----

func atomicLoad(fr *frame, a []value) value {
	fr.i.m.yield("atomic.Load")
	return *a[0].(*value)
}

func atomicStore(fr *frame, a []value) value {
	fr.i.m.yield("atomic.Store")
	*a[0].(*value) = a[1]
	return nil
}

func atomicAdd(fr *frame, a []value) value {
	fr.i.m.yield("atomic.Add")
	p := a[0].(*value)
	*p = binop(fr.i.m, token.ADD, nil, *p, a[1])
	return *p
}

func atomicCAS(fr *frame, a []value) value {
	fr.i.m.yield("atomic.CAS")
	m := fr.i.m
	p := a[0].(*value)
	if m.truth(binop(m, token.EQL, types.Typ[types.Int64], *p, a[1])) {
		*p = a[2]
		return true
	}
	return false
}
