package interp

// Symbolic scalars: an SMT term plus the Go basic kind it stands for.

import (
	"fmt"
	"go/token"
	"go/types"
	"math"

	"symgo/smt"
)

type sym struct {
	t *smt.Term
	k types.BasicKind
}

func (s *sym) String() string { return "<sym " + s.t.String() + ">" }

func kindInfo(k types.BasicKind) (w int, signed bool, ok bool) {
	switch k {
	case types.Int, types.Int64:
		return 64, true, true
	case types.Int8:
		return 8, true, true
	case types.Int16:
		return 16, true, true
	case types.Int32:
		return 32, true, true
	case types.Uint, types.Uint64, types.Uintptr:
		return 64, false, true
	case types.Uint8:
		return 8, false, true
	case types.Uint16:
		return 16, false, true
	case types.Uint32:
		return 32, false, true
	}
	return 0, false, false
}

func basicKindOf(t types.Type) types.BasicKind {
	if b, ok := t.Underlying().(*types.Basic); ok {
		k := b.Kind()
		switch k {
		case types.UntypedBool:
			return types.Bool
		case types.UntypedInt:
			return types.Int
		case types.UntypedRune:
			return types.Int32
		case types.UntypedFloat:
			return types.Float64
		}
		return k
	}
	return types.Invalid
}

// kindOfValue returns the basic kind of a concrete scalar.
func kindOfValue(v value) types.BasicKind {
	switch v.(type) {
	case bool:
		return types.Bool
	case int:
		return types.Int
	case int8:
		return types.Int8
	case int16:
		return types.Int16
	case int32:
		return types.Int32
	case int64:
		return types.Int64
	case uint:
		return types.Uint
	case uint8:
		return types.Uint8
	case uint16:
		return types.Uint16
	case uint32:
		return types.Uint32
	case uint64:
		return types.Uint64
	case uintptr:
		return types.Uintptr
	case float64:
		return types.Float64
	case *sym:
		return v.(*sym).k
	}
	return types.Invalid
}

// lift turns a scalar (concrete or symbolic) into a term.
func (m *machine) lift(v value) *smt.Term {
	switch v := v.(type) {
	case *sym:
		return v.t
	case bool:
		return m.ctx.Bool(v)
	case float64:
		return m.ctx.F64(v)
	case float32:
		panic(engineError("float32 in symbolic expression"))
	}
	k := kindOfValue(v)
	w, signed, ok := kindInfo(k)
	if !ok {
		panic(engineError(fmt.Sprintf("lift: cannot lift %T into a term", v)))
	}
	var raw uint64
	if signed {
		raw = uint64(asInt64(v))
	} else {
		raw = asUint64(v)
	}
	return m.ctx.Int(raw, w, signed)
}

// concValue builds the concrete interpreter value of basic kind k from raw bits.
func concValue(k types.BasicKind, raw uint64) value {
	switch k {
	case types.Bool:
		return raw != 0
	case types.Int:
		return int(raw)
	case types.Int8:
		return int8(raw)
	case types.Int16:
		return int16(raw)
	case types.Int32:
		return int32(raw)
	case types.Int64:
		return int64(raw)
	case types.Uint:
		return uint(raw)
	case types.Uint8:
		return uint8(raw)
	case types.Uint16:
		return uint16(raw)
	case types.Uint32:
		return uint32(raw)
	case types.Uint64:
		return raw
	case types.Uintptr:
		return uintptr(raw)
	case types.Float64:
		return math.Float64frombits(raw)
	}
	panic(engineError(fmt.Sprintf("concValue: kind %v", k)))
}

// wrap makes a value out of a term: concrete if the term folded to a constant.
func wrapTerm(t *smt.Term, k types.BasicKind) value {
	if t.IsConst() {
		return concValue(k, t.Val)
	}
	return &sym{t: t, k: k}
}

func isSym(v value) bool { _, ok := v.(*sym); return ok }

// symBinop implements binop when at least one operand is symbolic.
func (m *machine) symBinop(op token.Token, x, y value) value {
	c := m.ctx
	kx := kindOfValue(x)
	if kx == types.Invalid {
		panic(engineError(fmt.Sprintf("symbolic operand combined with %T in %s", x, op)))
	}
	if kindOfValue(y) == types.Invalid {
		panic(engineError(fmt.Sprintf("symbolic operand combined with %T in %s", y, op)))
	}
	tx, ty := m.lift(x), m.lift(y)
	if kx == types.Bool {
		switch op {
		case token.EQL:
			return wrapTerm(c.Cmp(smt.OEq, tx, ty), types.Bool)
		case token.NEQ:
			return wrapTerm(c.BNot(c.Cmp(smt.OEq, tx, ty)), types.Bool)
		case token.AND, token.LAND:
			return wrapTerm(c.BAnd(tx, ty), types.Bool)
		case token.OR, token.LOR:
			return wrapTerm(c.BOr(tx, ty), types.Bool)
		}
		panic(engineError("unsupported symbolic bool op " + op.String()))
	}
	if kx == types.Float64 {
		switch op {
		case token.ADD:
			return wrapTerm(c.FBin(smt.OFAdd, tx, ty), kx)
		case token.SUB:
			return wrapTerm(c.FBin(smt.OFSub, tx, ty), kx)
		case token.MUL:
			return wrapTerm(c.FBin(smt.OFMul, tx, ty), kx)
		case token.QUO:
			return wrapTerm(c.FBin(smt.OFDiv, tx, ty), kx)
		case token.EQL:
			return wrapTerm(c.Cmp(smt.OEq, tx, ty), types.Bool)
		case token.NEQ:
			return wrapTerm(c.BNot(c.Cmp(smt.OEq, tx, ty)), types.Bool)
		case token.LSS:
			return wrapTerm(c.Cmp(smt.OLt, tx, ty), types.Bool)
		case token.LEQ:
			return wrapTerm(c.Cmp(smt.OLe, tx, ty), types.Bool)
		case token.GTR:
			return wrapTerm(c.Cmp(smt.OLt, ty, tx), types.Bool)
		case token.GEQ:
			return wrapTerm(c.Cmp(smt.OLe, ty, tx), types.Bool)
		}
		panic(engineError("unsupported symbolic float op " + op.String()))
	}
	switch op {
	case token.ADD:
		return wrapTerm(c.Bin(smt.OAdd, tx, ty), kx)
	case token.SUB:
		return wrapTerm(c.Bin(smt.OSub, tx, ty), kx)
	case token.MUL:
		return wrapTerm(c.Bin(smt.OMul, tx, ty), kx)
	case token.QUO, token.REM:
		// division by zero is a run-time panic: decide it first
		zero := c.Int(0, ty.W, ty.Signed)
		if m.branch(c.Cmp(smt.OEq, ty, zero)) {
			panic(runtimeError("integer divide by zero"))
		}
		if op == token.QUO {
			return wrapTerm(c.Bin(smt.ODiv, tx, ty), kx)
		}
		return wrapTerm(c.Bin(smt.ORem, tx, ty), kx)
	case token.AND:
		return wrapTerm(c.Bin(smt.OAnd, tx, ty), kx)
	case token.OR:
		return wrapTerm(c.Bin(smt.OOr, tx, ty), kx)
	case token.XOR:
		return wrapTerm(c.Bin(smt.OXor, tx, ty), kx)
	case token.AND_NOT:
		return wrapTerm(c.Bin(smt.OAnd, tx, c.Not(ty)), kx)
	case token.SHL, token.SHR:
		if ty.Signed {
			if m.branch(c.Cmp(smt.OLt, ty, c.Int(0, ty.W, true))) {
				panic(runtimeError("negative shift amount"))
			}
			ty = c.Conv(ty, ty.W, false)
		}
		if op == token.SHL {
			return wrapTerm(c.Bin(smt.OShl, tx, ty), kx)
		}
		return wrapTerm(c.Bin(smt.OShr, tx, ty), kx)
	case token.EQL:
		return wrapTerm(c.Cmp(smt.OEq, tx, ty), types.Bool)
	case token.NEQ:
		return wrapTerm(c.BNot(c.Cmp(smt.OEq, tx, ty)), types.Bool)
	case token.LSS:
		return wrapTerm(c.Cmp(smt.OLt, tx, ty), types.Bool)
	case token.LEQ:
		return wrapTerm(c.Cmp(smt.OLe, tx, ty), types.Bool)
	case token.GTR:
		return wrapTerm(c.Cmp(smt.OLt, ty, tx), types.Bool)
	case token.GEQ:
		return wrapTerm(c.Cmp(smt.OLe, ty, tx), types.Bool)
	}
	panic(engineError("unsupported symbolic op " + op.String()))
}

func (m *machine) symUnop(op token.Token, x *sym) value {
	c := m.ctx
	switch op {
	case token.SUB:
		if x.k == types.Float64 {
			return wrapTerm(c.FUn(smt.OFNeg, x.t), x.k)
		}
		return wrapTerm(c.Neg(x.t), x.k)
	case token.NOT:
		return wrapTerm(c.BNot(x.t), types.Bool)
	case token.XOR:
		return wrapTerm(c.Not(x.t), x.k)
	}
	panic(engineError("unsupported symbolic unary op " + op.String()))
}

// symConv converts a symbolic scalar to basic kind dst.
func (m *machine) symConv(dst types.BasicKind, x *sym) value {
	c := m.ctx
	if x.k == types.Float64 {
		if dst == types.Float64 {
			return x
		}
		w, s, ok := kindInfo(dst)
		if !ok {
			panic(engineError(fmt.Sprintf("symbolic conversion float64 -> %v", dst)))
		}
		return wrapTerm(c.F2I(x.t, w, s), dst)
	}
	if x.k == types.Bool {
		if dst == types.Bool {
			return x
		}
		panic(engineError("symbolic conversion from bool"))
	}
	if dst == types.Float64 {
		return wrapTerm(c.I2F(x.t), dst)
	}
	w, s, ok := kindInfo(dst)
	if !ok {
		panic(engineError(fmt.Sprintf("symbolic conversion %v -> %v", x.k, dst)))
	}
	return wrapTerm(c.Conv(x.t, w, s), dst)
}

// truth folds a bool-or-sym into a branch decision.
func (m *machine) truth(v value) bool {
	switch v := v.(type) {
	case bool:
		return v
	case *sym:
		return m.branch(v.t)
	}
	panic(engineError(fmt.Sprintf("truth: %T is not a boolean", v)))
}

// concretizeInt turns a possibly symbolic integer into a concrete int64 by
// forking over the values lo..hi (inclusive); values outside are reported via ok=false.
func (m *machine) concretizeInt(v value, lo, hi int64) (int64, bool) {
	s, isS := v.(*sym)
	if !isS {
		x := asInt64(v)
		if _, signed, _ := kindInfo(kindOfValue(v)); !signed && asUint64Any(v) > uint64(math.MaxInt64) {
			return 0, false
		}
		return x, x >= lo && x <= hi
	}
	c := m.ctx
	for i := lo; i <= hi; i++ {
		if m.branch(c.Cmp(smt.OEq, s.t, c.Int(uint64(i), s.t.W, s.t.Signed))) {
			return i, true
		}
	}
	return 0, false
}

const symPlaceholder = "<sym>"

// uniqueValue reports the single feasible value of s under the path condition,
// if there is exactly one.
func (m *machine) uniqueValue(s *sym) (value, bool) {
	if s.k == types.Float64 || s.k == types.Float32 || s.t.K == smt.KF64 {
		return nil, false
	}
	if m.isConcrete {
		return nil, false
	}
	model := m.currentModel()
	if model == nil {
		return nil, false
	}
	raw, ok := smt.Eval(s.t, model)
	if !ok {
		return nil, false
	}
	c := m.ctx
	var cst *smt.Term
	if s.t.K == smt.KBool {
		cst = c.Bool(raw != 0)
	} else {
		cst = c.Int(raw, s.t.W, s.t.Signed)
	}
	ne := c.BNot(c.Cmp(smt.OEq, s.t, cst))
	if ne.IsConst() {
		if ne.Val != 0 {
			return nil, false
		}
		return concValue(s.k, raw), true
	}
	res, _ := m.check(ne, m.lim.FeasTimeout, false)
	if res != smt.Unsat {
		return nil, false
	}
	m.assertPC(c.Cmp(smt.OEq, s.t, cst)) // implied by the pc; recorded so that later evaluations fold
	return concValue(s.k, raw), true
}

func asUint64Any(x value) uint64 {
	switch x := x.(type) {
	case int:
		return uint64(x)
	case int8:
		return uint64(x)
	case int16:
		return uint64(x)
	case int32:
		return uint64(x)
	case int64:
		return uint64(x)
	}
	return asUint64(x)
}
