// Copyright 2013 The Go Authors. All rights reserved.
// Use of this source code is governed by a BSD-style
// license that can be found in the LICENSE file.

package interp

// Minimal emulation of "reflect": only reflect.TypeOf and a few
// reflect.Type methods are supported (the code under test uses reflection
// for type names in messages; everything else is stubbed per harness).

import (
	"fmt"
	"go/token"
	"go/types"
	"reflect"

	"golang.org/x/tools/go/ssa"
)

type opaqueType struct {
	types.Type
	name string
}

func (t *opaqueType) String() string { return t.name }

// A bogus "reflect" type-checker package.  Shared across interpreters.
var reflectTypesPackage = types.NewPackage("reflect", "reflect")

// rtype is the concrete type the interpreter uses to implement the
// reflect.Type interface.
var rtypeType = makeNamedType("rtype", &opaqueType{nil, "rtype"})

// error is an (interpreted) named type whose underlying type is string.
var errorType = makeNamedType("error", &opaqueType{nil, "error"})

func makeNamedType(name string, underlying types.Type) *types.Named {
	obj := types.NewTypeName(token.NoPos, reflectTypesPackage, name, nil)
	return types.NewNamed(obj, underlying, nil)
}

// makeReflectType boxes up an rtype in a reflect.Type interface.
func makeReflectType(rt rtype) value {
	return iface{rtypeType, rt}
}

func ext۰reflect۰rtype۰Elem(fr *frame, args []value) value {
	return makeReflectType(rtype{args[0].(rtype).t.Underlying().(interface {
		Elem() types.Type
	}).Elem()})
}

func ext۰reflect۰rtype۰Kind(fr *frame, args []value) value {
	return uint(reflectKind(args[0].(rtype).t))
}

func ext۰reflect۰rtype۰String(fr *frame, args []value) value {
	return typeString(args[0].(rtype).t)
}

func ext۰reflect۰rtype۰Name(fr *frame, args []value) value {
	switch t := types.Unalias(args[0].(rtype).t).(type) {
	case *types.Named:
		name := t.Obj().Name()
		if ta := t.TypeArgs(); ta != nil && ta.Len() > 0 {
			name += "["
			for i := 0; i < ta.Len(); i++ {
				if i > 0 {
					name += ","
				}
				name += types.TypeString(ta.At(i), nil)
			}
			name += "]"
		}
		return name
	case *types.Basic:
		return t.Name()
	}
	return ""
}

func ext۰reflect۰rtype۰PkgPath(fr *frame, args []value) value {
	if t, ok := types.Unalias(args[0].(rtype).t).(*types.Named); ok && t.Obj().Pkg() != nil {
		return t.Obj().Pkg().Path()
	}
	return ""
}

// typeString renders a type the way reflect does: package *name* qualified.
func typeString(t types.Type) string {
	return types.TypeString(t, func(p *types.Package) string { return p.Name() })
}

func ext۰reflect۰TypeOf(fr *frame, args []value) value {
	// Signature: func (t reflect.rtype) string
	itf := args[0].(iface)
	if itf.t == nil {
		return iface{}
	}
	return makeReflectType(rtype{itf.t})
}

func reflectKind(t types.Type) reflect.Kind {
	switch t := t.(type) {
	case *types.Named, *types.Alias:
		return reflectKind(t.Underlying())
	case *types.Basic:
		switch t.Kind() {
		case types.Bool:
			return reflect.Bool
		case types.Int:
			return reflect.Int
		case types.Int8:
			return reflect.Int8
		case types.Int16:
			return reflect.Int16
		case types.Int32:
			return reflect.Int32
		case types.Int64:
			return reflect.Int64
		case types.Uint:
			return reflect.Uint
		case types.Uint8:
			return reflect.Uint8
		case types.Uint16:
			return reflect.Uint16
		case types.Uint32:
			return reflect.Uint32
		case types.Uint64:
			return reflect.Uint64
		case types.Uintptr:
			return reflect.Uintptr
		case types.Float32:
			return reflect.Float32
		case types.Float64:
			return reflect.Float64
		case types.Complex64:
			return reflect.Complex64
		case types.Complex128:
			return reflect.Complex128
		case types.String:
			return reflect.String
		case types.UnsafePointer:
			return reflect.UnsafePointer
		}
	case *types.Array:
		return reflect.Array
	case *types.Chan:
		return reflect.Chan
	case *types.Signature:
		return reflect.Func
	case *types.Interface:
		return reflect.Interface
	case *types.Map:
		return reflect.Map
	case *types.Pointer:
		return reflect.Pointer
	case *types.Slice:
		return reflect.Slice
	case *types.Struct:
		return reflect.Struct
	}
	panic(fmt.Sprint("unexpected type: ", t))
}

func ext۰reflect۰error۰Error(fr *frame, args []value) value {
	return args[0]
}

// newMethod creates a new method of the specified name, package and receiver type.
func newMethod(pkg *ssa.Package, recvType types.Type, name string) *ssa.Function {
	// TODO(adonovan): fix: hack: currently the only part of Signature
	// that is needed is the "pointerness" of Recv.Type, and for
	// now, we'll set it to always be false since we're only
	// concerned with rtype.  Encapsulate this better.
	sig := types.NewSignatureType(types.NewParam(token.NoPos, nil, "recv", recvType), nil, nil, nil, nil, false)
	fn := pkg.Prog.NewFunction(name, sig, "fake reflect method")
	fn.Pkg = pkg
	return fn
}

func initReflect(w *World) {
	w.reflectPackage = &ssa.Package{
		Prog:    w.Prog,
		Pkg:     reflectTypesPackage,
		Members: make(map[string]ssa.Member),
	}
	w.rtypeMethods = methodSet{}
	for _, n := range []string{"Elem", "Kind", "String", "Name", "PkgPath"} {
		w.rtypeMethods[n] = newMethod(w.reflectPackage, rtypeType, n)
	}
	w.errorMethods = methodSet{
		"Error": newMethod(w.reflectPackage, errorType, "Error"),
	}
}
