package interp

// machine: the per-path symbolic state — path condition, decision log,
// solver access, inputs, obligations.

import (
	"fmt"
	"go/types"
	"time"

	"symgo/smt"
)

// engineError aborts a path as inconclusive (unsupported construct, budget).
type engineError string

func (e engineError) Error() string { return string(e) }

// runtimeError is a target run-time panic raised by the executor itself
// (division by zero, index out of range on a symbolic index, ...).
type runtimeError string

func (e runtimeError) Error() string { return "runtime error: " + string(e) }

// pathEnd silently terminates a path (assumption false, infeasible).
type pathEnd struct{ reason string }

// Input is one nondeterministic value drawn by the harness, in draw order.
type Input struct {
	Name string         `json:"name"`
	Kind string         `json:"kind"`
	Var  *smt.Term      `json:"-"`
	Conc uint64         `json:"-"` // for choices / concrete mode
	IsC  bool           `json:"-"`
	K    types.BasicKind `json:"-"`
}

// Obs is one verifrt.Observe record.
type Obs struct {
	Label string
	Val   value
}

// Violation is a failed obligation with a model of the inputs.
type Violation struct {
	Harness string
	Label   string
	Kind    string // "assert" | "panic"
	Msg     string
	Inputs  []ReplayInput
	Path    []int
	MapOrder bool // the path drew map iteration orders: native replay must be retried
}

// ReplayInput is the concrete value of one input, in draw order.
type ReplayInput struct {
	Name  string `json:"name"`
	Kind  string `json:"kind"`
	Value uint64 `json:"value"`
}

type Limits struct {
	FeasTimeout time.Duration
	OblTimeout  time.Duration
	MaxSteps    int64
}

type machine struct {
	w       *World
	h       *Harness
	ctx     *smt.Ctx
	script  *smt.Script
	solvers []*smt.Proc
	lim     Limits

	prefix []int
	log    []int
	forks  [][]int
	known  map[int]bool

	model      smt.Model
	modelValid bool

	inputs     []Input
	concrete   []uint64 // concrete mode: values for the inputs in draw order
	isConcrete bool
	observes   []Obs
	covers     map[string]bool
	violations []Violation
	inconcl    []string
	obligs     int
	discharged int
	trivial    int
	steps      int64
	uncertain  bool
	nFeasQ     int
	nOblQ      int
	solverTime time.Duration
	locks      map[*value]int
	ghost      map[string]value
	maxDepth   int
	sched      scheduler
	nchans     int
	onces      map[*value]bool
	mapPerms   int
	jsonBlobs  map[int]*jnode
	jsonDecBuf map[*value][]value
	funcsHit   map[string]bool
	stubsHit   map[string]bool
	uniq       []uniqEntry // unique.Make intern table
	pcH        [2]uint64 // commutative hash of the set of asserted conjuncts
	pcSeen     map[[2]uint64]bool
}

func (m *machine) replaying() bool { return len(m.log) < len(m.prefix) }

type uniqEntry struct {
	t    types.Type
	cell *value
}

type queryKey struct {
	pc, ex [2]uint64
	mode   smt.Mode
}

type queryAns struct {
	res   smt.Result
	model smt.Model
}

func (m *machine) assertPC(t *smt.Term) {
	if t.IsConst() {
		return
	}
	if !m.pcSeen[t.H] {
		if m.pcSeen == nil {
			m.pcSeen = map[[2]uint64]bool{}
		}
		m.pcSeen[t.H] = true
		m.pcH[0] += t.H[0]
		m.pcH[1] += t.H[1]
	}
	m.script.Lines = append(m.script.Lines, "(assert "+m.script.Ref(t)+")")
	m.known[t.ID] = true
	if t.Op == smt.OBNot {
		m.known[t.Args[0].ID] = false
	} else {
		// remember the negation too
		n := m.ctx.BNot(t)
		m.known[n.ID] = false
	}
	if t.Op == smt.OBAnd {
		for _, a := range t.Args {
			m.noteKnown(a)
		}
	}
}

func (m *machine) noteKnown(t *smt.Term) {
	if t.IsConst() {
		return
	}
	m.known[t.ID] = true
	if t.Op == smt.OBNot {
		m.known[t.Args[0].ID] = false
	}
	if t.Op == smt.OBAnd {
		for _, a := range t.Args {
			m.noteKnown(a)
		}
	}
}

// check runs the solver portfolio on pc ∧ extra. Sequential escalation.
func (m *machine) check(extra *smt.Term, timeout time.Duration, wantModel bool) (smt.Result, smt.Model) {
	var ex []string
	if extra != nil {
		ex = []string{m.script.Ref(extra)}
	}
	if m.script.Err != nil {
		panic(engineError("encoding: " + m.script.Err.Error()))
	}
	key := queryKey{pc: m.pcH, mode: m.h.Mode}
	if extra != nil {
		key.ex = extra.H
	}
	if !m.w.NoQueryCache {
		if a, ok := m.w.QueryCache.Load(key); ok {
			m.w.CacheHits.Add(1)
			qa := a.(queryAns)
			return qa.res, qa.model
		}
	}
	var vars []*smt.Term
	if wantModel {
		vars = m.ctx.Vars
	}
	t0 := time.Now()
	defer func() { m.solverTime += time.Since(t0) }()
	res, model := m.checkUncached(ex, timeout, vars)
	if res == smt.Unsat || (res == smt.Sat && wantModel) {
		m.w.QueryCache.Store(key, queryAns{res, model})
	}
	return res, model
}

func (m *machine) checkUncached(ex []string, timeout time.Duration, vars []*smt.Term) (smt.Result, smt.Model) {
	for _, v := range vars {
		m.script.Ref(v) // declare before use; no emission inside the racing goroutines
	}
	if m.h.Race && len(m.solvers) > 1 {
		// the primary solver alone gets a short slice first (most queries are
		// easy and racing costs a kill+restart of the losers); then all race.
		first := 1500 * time.Millisecond
		if first > timeout {
			first = timeout
		}
		res, model, err := m.solvers[0].Check(m.script, ex, first, vars)
		if err != nil {
			m.w.noteSolverError(m.solvers[0].Name, err)
		} else if res != smt.Unknown {
			return res, model
		}
		return m.race(ex, timeout, vars)
	}
	// escalation: each solver with a short slice first, then the full timeout
	slices := []time.Duration{timeout / 10, timeout}
	if timeout <= 2*time.Second {
		slices = []time.Duration{timeout}
	}
	for _, to := range slices {
		if to < 200*time.Millisecond {
			to = 200 * time.Millisecond
		}
		for _, p := range m.solvers {
			res, model, err := p.Check(m.script, ex, to, vars)
			if err != nil {
				m.w.noteSolverError(p.Name, err)
				continue
			}
			if res != smt.Unknown {
				return res, model
			}
		}
	}
	return smt.Unknown, nil
}

// race submits the query to all solvers at once; the first definitive answer
// wins, stragglers are interrupted (they restart lazily and re-read the script).
func (m *machine) race(ex []string, timeout time.Duration, vars []*smt.Term) (smt.Result, smt.Model) {
	type ans struct {
		res   smt.Result
		model smt.Model
		err   error
		p     *smt.Proc
	}
	ch := make(chan ans, len(m.solvers))
	for _, p := range m.solvers {
		go func(p *smt.Proc) {
			res, model, err := p.Check(m.script, ex, timeout, vars)
			ch <- ans{res, model, err, p}
		}(p)
	}
	pending := len(m.solvers)
	var win *ans
	var grace <-chan time.Time
	finished := map[*smt.Proc]bool{}
	for pending > 0 {
		select {
		case a := <-ch:
			pending--
			finished[a.p] = true
			if a.err != nil {
				m.w.noteSolverError(a.p.Name, a.err)
				continue
			}
			if a.res != smt.Unknown && win == nil {
				w := a
				win = &w
				grace = time.After(20 * time.Millisecond)
			}
		case <-grace:
			grace = nil
			for _, p := range m.solvers {
				if !finished[p] {
					p.Interrupt()
				}
			}
		}
	}
	if win != nil {
		return win.res, win.model
	}
	return smt.Unknown, nil
}

// feasible decides whether pc ∧ t is satisfiable; unknown counts as feasible.
func (m *machine) feasible(t *smt.Term) (bool, smt.Model) {
	m.nFeasQ++
	res, model := m.check(t, m.lim.FeasTimeout, true)
	switch res {
	case smt.Unsat:
		return false, nil
	case smt.Sat:
		return true, model
	}
	m.uncertain = true
	return true, nil
}

// branch decides a symbolic condition on this path, forking if both sides are feasible.
func (m *machine) branch(cond *smt.Term) bool {
	if cond.IsConst() {
		return cond.Val != 0
	}
	if d, ok := m.known[cond.ID]; ok {
		return d
	}
	if m.isConcrete {
		panic(engineError("symbolic branch in concrete mode"))
	}
	idx := len(m.log)
	var dir bool
	if idx < len(m.prefix) {
		dir = m.prefix[idx] != 0
		m.modelValid = false
	} else {
		ncond := m.ctx.BNot(cond)
		var tKnown, fKnown, tFeas, fFeas bool
		var tModel, fModel smt.Model
		if m.modelValid {
			if v, ok := smt.Eval(cond, m.model); ok {
				if v != 0 {
					tKnown, tFeas, tModel = true, true, m.model
				} else {
					fKnown, fFeas, fModel = true, true, m.model
				}
			}
		}
		if !tKnown {
			tFeas, tModel = m.feasible(cond)
		}
		if !fKnown {
			if !tFeas {
				fFeas = true // pc is satisfiable, so the other side must be
			} else {
				fFeas, fModel = m.feasible(ncond)
			}
		}
		switch {
		case tFeas && fFeas:
			dir = true
			alt := make([]int, idx+1)
			copy(alt, m.log)
			alt[idx] = 0
			m.forks = append(m.forks, alt)
		case tFeas:
			dir = true
		case fFeas:
			dir = false
		}
		if dir {
			m.model, m.modelValid = tModel, tModel != nil
		} else {
			m.model, m.modelValid = fModel, fModel != nil
		}
	}
	if dir {
		m.log = append(m.log, 1)
		m.assertPC(cond)
	} else {
		m.log = append(m.log, 0)
		m.assertPC(m.ctx.BNot(cond))
	}
	return dir
}

// choose is an n-way fork that needs no solver (all alternatives feasible).
func (m *machine) choose(n int) int {
	if n <= 1 {
		return 0
	}
	idx := len(m.log)
	k := 0
	if idx < len(m.prefix) {
		k = m.prefix[idx]
	} else {
		for j := 1; j < n; j++ {
			alt := make([]int, idx+1)
			copy(alt, m.log)
			alt[idx] = j
			m.forks = append(m.forks, alt)
		}
	}
	m.log = append(m.log, k)
	return k
}

// currentModel returns a model of the path condition.
func (m *machine) currentModel() smt.Model {
	if m.modelValid && m.model != nil {
		return m.model
	}
	if len(m.ctx.Vars) == 0 {
		return smt.Model{} // fully concrete path
	}
	res, model := m.check(nil, m.lim.OblTimeout, true)
	if res == smt.Sat {
		m.model, m.modelValid = model, true
		return model
	}
	return nil
}

func (m *machine) replayInputs(model smt.Model) []ReplayInput {
	out := make([]ReplayInput, len(m.inputs))
	for i, in := range m.inputs {
		r := ReplayInput{Name: in.Name, Kind: in.Kind}
		if in.IsC {
			r.Value = in.Conc
		} else if model != nil {
			r.Value = model[in.Var.Name]
		}
		out[i] = r
	}
	return out
}

func (m *machine) addViolation(kind, label, msg string, model smt.Model) {
	if model == nil && len(m.ctx.Vars) > 0 {
		// no model of the path condition could be obtained: not reportable, not a pass
		m.inconcl = append(m.inconcl, fmt.Sprintf("%s %s (%s) reached, but the solver gave no model of the path condition", kind, label, firstLine(msg)))
		return
	}
	m.violations = append(m.violations, Violation{
		Harness: m.h.Name, Label: label, Kind: kind, Msg: msg,
		Inputs: m.replayInputs(model), Path: append([]int(nil), m.log...), MapOrder: m.mapPerms > 0 || m.sched != nil,
	})
}

// assume constrains the path; an infeasible assumption ends the path.
func (m *machine) assume(v value) {
	switch v := v.(type) {
	case bool:
		if !v {
			panic(pathEnd{"assume false"})
		}
	case *sym:
		if d, ok := m.known[v.t.ID]; ok {
			if !d {
				panic(pathEnd{"assume contradicts path"})
			}
			return
		}
		if !m.replaying() {
			holds := false
			if m.modelValid {
				if x, ok := smt.Eval(v.t, m.model); ok && x != 0 {
					holds = true
				}
			}
			if !holds {
				ok, model := m.feasible(v.t)
				if !ok {
					panic(pathEnd{"assume infeasible"})
				}
				m.model, m.modelValid = model, model != nil
			}
		} else {
			m.modelValid = false
		}
		m.assertPC(v.t)
	default:
		panic(engineError(fmt.Sprintf("Assume: %T", v)))
	}
}

// assert is a proof obligation.
func (m *machine) assert(v value, label string) {
	if m.replaying() {
		// the parent path already decided this obligation under the same pc
		if s, ok := v.(*sym); ok {
			m.assertPC(s.t)
			m.modelValid = false
		} else if b, ok := v.(bool); ok && !b {
			panic(pathEnd{"assert failed in replayed prefix"})
		}
		return
	}
	m.obligs++
	switch v := v.(type) {
	case bool:
		if v {
			m.discharged++
			m.trivial++
			return
		}
		m.addViolation("assert", label, "assertion is false on this path", m.currentModel())
		panic(pathEnd{"assert failed"})
	case *sym:
		if d, ok := m.known[v.t.ID]; ok && d {
			m.discharged++
			m.trivial++
			return
		}
		m.nOblQ++
		neg := m.ctx.BNot(v.t)
		res, model := m.check(neg, m.lim.OblTimeout, true)
		switch res {
		case smt.Unsat:
			m.discharged++
			m.assertPC(v.t)
		case smt.Sat:
			m.addViolation("assert", label, "assertion can be false", model)
			ok, mod := m.feasible(v.t)
			if !ok {
				panic(pathEnd{"assert always fails here"})
			}
			m.model, m.modelValid = mod, mod != nil
			m.assertPC(v.t)
		default:
			m.inconcl = append(m.inconcl, "obligation "+label+": solver answered unknown")
			m.assertPC(v.t)
			m.modelValid = false
		}
	default:
		panic(engineError(fmt.Sprintf("Assert: %T", v)))
	}
}

// newInput draws a nondeterministic scalar.
func (m *machine) newInput(name string, k types.BasicKind) value {
	seq := len(m.inputs)
	kind := types.Typ[k].Name()
	if m.isConcrete {
		if seq >= len(m.concrete) {
			panic(engineError(fmt.Sprintf("concrete mode: input #%d (%s) missing", seq, name)))
		}
		raw := m.concrete[seq]
		m.inputs = append(m.inputs, Input{Name: name, Kind: kind, IsC: true, Conc: raw, K: k})
		return concValue(k, raw)
	}
	vname := fmt.Sprintf("%s_%d", name, seq)
	var t *smt.Term
	switch k {
	case types.Bool:
		t = m.ctx.Var(vname, smt.KBool, 0, false)
	case types.Float64:
		t = m.ctx.Var(vname, smt.KF64, 0, false)
	default:
		w, s, ok := kindInfo(k)
		if !ok {
			panic(engineError("input of unsupported kind " + kind))
		}
		t = m.ctx.Var(vname, smt.KInt, w, s)
	}
	m.inputs = append(m.inputs, Input{Name: name, Kind: kind, Var: t, K: k})
	return &sym{t: t, k: k}
}

// newChoice draws a small concrete choice in [0,n) by forking.
func (m *machine) newChoice(name string, n int) int {
	seq := len(m.inputs)
	if m.isConcrete {
		if seq >= len(m.concrete) {
			panic(engineError(fmt.Sprintf("concrete mode: input #%d (%s) missing", seq, name)))
		}
		raw := m.concrete[seq]
		m.inputs = append(m.inputs, Input{Name: name, Kind: "choice", IsC: true, Conc: raw, K: types.Int})
		return int(raw)
	}
	k := m.choose(n)
	m.inputs = append(m.inputs, Input{Name: name, Kind: "choice", IsC: true, Conc: uint64(k), K: types.Int})
	return k
}
