package interp

import (
	"crypto/sha256"
	"os"
)

func newCoopSched(m *machine, i *interpreter) scheduler {
	panic(engineError("cooperative scheduler not built"))
}

var debugProgress = os.Getenv("SYMGO_PROGRESS") != ""

func sha256Sum(b []byte) [32]byte { return sha256.Sum256(b) }
