package interp

func newCoopSched(m *machine, i *interpreter) scheduler {
	panic(engineError("cooperative scheduler not built"))
}
