package interp

import "os"

func newCoopSched(m *machine, i *interpreter) scheduler {
	panic(engineError("cooperative scheduler not built"))
}

var debugProgress = os.Getenv("SYMGO_PROGRESS") != ""
