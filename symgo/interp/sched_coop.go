package interp

// Cooperative scheduler (DESIGN §2.7): every interpreted goroutine runs on its
// own host goroutine under a baton — exactly one runs at a time. At every
// scheduling point (go, channel operations, select, mutex/RWMutex
// lock/unlock, WaitGroup, Cond, sync/atomic, verifrt.Yield) the next thread is
// a decision of the path (machine.choose), so schedules are explored by the
// same decision-prefix search as data branches, within a preemption bound.
// Deadlock (no enabled thread while some thread is unfinished) is a violation.

import (
	"crypto/sha256"
	"fmt"
	"go/token"
	"go/types"
	"os"

	"golang.org/x/tools/go/ssa"
)

var debugProgress = os.Getenv("SYMGO_PROGRESS") != ""

func sha256Sum(b []byte) [32]byte { return sha256.Sum256(b) }

type thread struct {
	id    int
	wake  chan struct{}
	done  bool
	ready func() bool // nil when runnable; otherwise the condition it waits for
	what  string
}

type coopSched struct {
	m           *machine
	i           *interpreter
	threads     []*thread
	cur         *thread
	preemptLeft int
	abort       any  // panic value raised in a non-main thread, to be re-raised in main
	dead        bool // the path is over: parked threads must unwind
	wg          map[*value]int
	condWaiters map[*value][]*thread
	signaled    map[*thread]bool
	switches    int
}

func newCoopSched(m *machine, i *interpreter) scheduler {
	s := &coopSched{m: m, i: i, preemptLeft: m.h.Preempt, wg: map[*value]int{}, condWaiters: map[*value][]*thread{}, signaled: map[*thread]bool{}}
	if s.preemptLeft == 0 {
		s.preemptLeft = 2
	}
	return s
}

func (s *coopSched) runMain(f func()) {
	main := &thread{id: 0, wake: make(chan struct{}, 1)}
	s.threads = []*thread{main}
	s.cur = main
	if schedTrace {
		fmt.Printf("\nPATH %v:", s.m.prefix)
	}
	defer func() {
		// release every parked thread
		s.dead = true
		for _, t := range s.threads {
			if t != main && !t.done {
				select {
				case t.wake <- struct{}{}:
				default:
				}
			}
		}
	}()
	f()
}

func (s *coopSched) enabled(t *thread) bool {
	return !t.done && (t.ready == nil || t.ready())
}

// park blocks the calling thread until it is given the baton again.
func (s *coopSched) park(self *thread) {
	<-self.wake
	if s.dead {
		panic(schedAbort{"path ended"})
	}
	if self.id == 0 && s.abort != nil {
		p := s.abort
		s.abort = nil
		panic(p)
	}
}

// reschedule picks the next thread to run. selfBlocked: the caller cannot continue now.
func (s *coopSched) reschedule(selfBlocked bool) { s.rescheduleX(selfBlocked, false) }

// rescheduleX: free = a voluntary yield (verifrt.Yield, runtime.Gosched): switching
// away does not count against the preemption bound.
func (s *coopSched) rescheduleX(selfBlocked, free bool) {
	self := s.cur
	var cands []*thread
	if !selfBlocked && s.enabled(self) {
		cands = append(cands, self)
	}
	for _, t := range s.threads {
		if t != self && s.enabled(t) {
			cands = append(cands, t)
		}
	}
	if len(cands) == 0 {
		if selfBlocked {
			msg := fmt.Sprintf("deadlock: all goroutines are blocked (thread %d waits for %s)", self.id, self.what)
			if self.id == 0 {
				panic(fatalError(msg))
			}
			s.abort = fatalError(msg)
			s.handOver(self, s.threads[0])
			return
		}
		return
	}
	next := cands[0]
	if len(cands) > 1 {
		if cands[0] == self && s.preemptLeft <= 0 && !free {
			next = self
		} else {
			k := s.m.choose(len(cands))
			next = cands[k]
			if cands[0] == self && next != self && !free {
				s.preemptLeft--
			}
		}
	}
	if next == self {
		return
	}
	s.handOver(self, next)
}

func (s *coopSched) handOver(self, next *thread) {
	s.switches++
	s.cur = next
	next.wake <- struct{}{}
	s.park(self)
	s.cur = self
}

// block waits until cond holds.
func (s *coopSched) block(what string, cond func() bool) {
	self := s.cur
	if schedTrace && !cond() {
		fmt.Printf("  [t%d BLOCK %s]", self.id, what)
	}
	for !cond() {
		self.ready, self.what = cond, what
		s.reschedule(true)
	}
	self.ready, self.what = nil, ""
}

func (s *coopSched) yield(what string) {
	if schedTrace {
		fmt.Printf("  [t%d %s pl=%d]", s.cur.id, what, s.preemptLeft)
	}
	s.rescheduleX(false, s.m.h.FreeYields && (what == "Yield" || what == "Gosched"))
}

var schedTrace = os.Getenv("SYMGO_SCHEDTRACE") != ""

func (s *coopSched) lock(p *value, shared bool) {
	s.yield("lock")
	m := s.m
	if shared {
		s.block("RLock", func() bool { return m.locks[p] >= 0 })
		m.locks[p]++
		return
	}
	s.block("Lock", func() bool { return m.locks[p] == 0 })
	m.locks[p] = -1
}

func (s *coopSched) unlock(p *value, shared bool) {
	m := s.m
	if shared {
		if m.locks[p] <= 0 {
			panic(fatalError("sync: RUnlock of unlocked RWMutex"))
		}
		m.locks[p]--
	} else {
		if m.locks[p] != -1 {
			panic(fatalError("sync: unlock of unlocked mutex"))
		}
		m.locks[p] = 0
	}
	s.yield("unlock")
}

func (s *coopSched) tryLock(p *value) bool {
	s.yield("trylock")
	if s.m.locks[p] != 0 {
		return false
	}
	s.m.locks[p] = -1
	return true
}

func (s *coopSched) wgAdd(p *value, d int) {
	s.wg[p] += d
	if s.wg[p] < 0 {
		panic(runtimeError("sync: negative WaitGroup counter"))
	}
	s.yield("wg.Add")
}

func (s *coopSched) wgWait(p *value) {
	s.block("WaitGroup.Wait", func() bool { return s.wg[p] == 0 })
}

func condLocker(p *value) *value {
	st := (*p).(structure)
	for _, f := range st {
		if itf, ok := f.(iface); ok && itf.t != nil {
			if lp, ok := itf.v.(*value); ok {
				return lp
			}
		}
	}
	panic(engineError("sync.Cond without a recognisable Locker"))
}

func (s *coopSched) condWait(p *value) {
	self := s.cur
	l := condLocker(p)
	s.condWaiters[p] = append(s.condWaiters[p], self)
	delete(s.signaled, self)
	s.unlock(l, false) // unlocking is a scheduling point: the waiter is already enqueued (atomic in the real runtime)
	s.block("Cond.Wait", func() bool { return s.signaled[self] })
	delete(s.signaled, self)
	s.lock(l, false)
}

func (s *coopSched) condSignal(p *value, all bool) {
	ws := s.condWaiters[p]
	if len(ws) == 0 {
		return
	}
	if all {
		for _, t := range ws {
			s.signaled[t] = true
		}
		s.condWaiters[p] = nil
	} else {
		s.signaled[ws[0]] = true
		s.condWaiters[p] = ws[1:]
	}
	s.yield("cond.Signal")
}

func (s *coopSched) send(c *chanT, v value) {
	if c == nil {
		s.block("send on nil channel", func() bool { return false })
	}
	s.yield("chan send")
	if c.closed {
		panic(runtimeError("send on closed channel"))
	}
	if c.cap == 0 {
		// rendezvous: hand the value over and wait until it is taken
		s.block("chan send", func() bool { return len(c.buf) == 0 || c.closed })
		c.buf = append(c.buf, v)
		s.block("chan send (rendezvous)", func() bool { return len(c.buf) == 0 || c.closed })
		return
	}
	s.block("chan send", func() bool { return len(c.buf) < c.cap || c.closed })
	if c.closed {
		panic(runtimeError("send on closed channel"))
	}
	c.buf = append(c.buf, v)
}

func (s *coopSched) recv(c *chanT) (value, bool) {
	if c == nil {
		s.block("receive on nil channel", func() bool { return false })
	}
	s.yield("chan recv")
	s.block("chan recv", func() bool { return len(c.buf) > 0 || c.closed })
	if len(c.buf) > 0 {
		v := c.buf[0]
		c.buf = c.buf[1:]
		return v, true
	}
	return nil, false
}

func (s *coopSched) closed(c *chanT) { s.yield("close") }

func (s *coopSched) spawn(i *interpreter, instr *ssa.Go, fn value, args []value) {
	t := &thread{id: len(s.threads), wake: make(chan struct{}, 1)}
	if len(s.threads) > 32 {
		panic(engineError("more than 32 goroutines on one path"))
	}
	s.threads = append(s.threads, t)
	go func() {
		<-t.wake
		if s.dead {
			return
		}
		defer func() {
			p := recover()
			t.done = true
			if _, isAbort := p.(schedAbort); isAbort || s.dead {
				return
			}
			if p != nil {
				// a panic in a goroutine ends the program: re-raise it in main
				s.abort = p
				main := s.threads[0]
				s.cur = main
				main.wake <- struct{}{}
				return
			}
			// normal end of the goroutine: give the baton to an enabled thread
			var cands []*thread
			for _, o := range s.threads {
				if s.enabled(o) {
					cands = append(cands, o)
				}
			}
			if len(cands) == 0 {
				s.abort = fatalError("deadlock: all goroutines are blocked after a goroutine ended")
				main := s.threads[0]
				s.cur = main
				main.wake <- struct{}{}
				return
			}
			var next *thread
			func() {
				// choosing may itself abort the path (engine errors): surface it in main
				defer func() {
					if q := recover(); q != nil {
						s.abort = q
						next = s.threads[0]
					}
				}()
				next = cands[s.m.choose(len(cands))]
			}()
			s.cur = next
			next.wake <- struct{}{}
		}()
		s.cur = t
		call(i, nil, instr.Pos(), fn, args)
	}()
	s.yield("go")
}

func (s *coopSched) doSelect(fr *frame, instr *ssa.Select) value {
	s.yield("select")
	type cs struct {
		c    *chanT
		send bool
		v    value
	}
	cases := make([]cs, len(instr.States))
	for k, st := range instr.States {
		cases[k].c, _ = fr.get(st.Chan).(*chanT)
		cases[k].send = st.Dir == types.SendOnly
		if st.Send != nil {
			cases[k].v = fr.get(st.Send)
		}
	}
	readyList := func() []int {
		var r []int
		for k, c := range cases {
			if c.c == nil {
				continue
			}
			if c.send {
				if c.c.closed || len(c.c.buf) < c.c.cap {
					r = append(r, k)
				}
			} else if len(c.c.buf) > 0 || c.c.closed {
				r = append(r, k)
			}
		}
		return r
	}
	rl := readyList()
	if len(rl) == 0 && instr.Blocking {
		s.block("select", func() bool { return len(readyList()) > 0 })
		rl = readyList()
	}
	chosen := -1
	var recvV value
	recvOk := false
	if len(rl) > 0 {
		chosen = rl[s.m.choose(len(rl))]
		c := cases[chosen]
		if c.send {
			if c.c.closed {
				panic(runtimeError("send on closed channel"))
			}
			c.c.buf = append(c.c.buf, c.v)
		} else if len(c.c.buf) > 0 {
			recvV, recvOk = c.c.buf[0], true
			c.c.buf = c.c.buf[1:]
		}
	}
	r := tuple{chosen, recvOk}
	for k, st := range instr.States {
		if st.Dir == types.RecvOnly {
			var v value
			if k == chosen && recvOk {
				v = recvV
			} else {
				v = zero(st.Chan.Type().Underlying().(*types.Chan).Elem())
			}
			r = append(r, v)
		}
	}
	return r
}

var _ = token.NoPos
