package interp

// Ordered association map used for every Go map in the target program.
// Keys may be symbolic scalars (or aggregates containing them): lookups then
// decide key equality through the path condition (forking).
// Iteration order is insertion order, or — when the harness asks for it — a
// fresh symbolic permutation realised by forking.

import (
	"fmt"
	"go/types"
	"strings"
	"unsafe"
)

type mentry struct {
	key, val value
	live     bool
}

type omap struct {
	kt      types.Type
	ents    []*mentry
	n       int
	idx     map[string]*mentry // concrete keys only
	symKeys int                // number of live entries whose key is not concrete
}

func makeMap(kt types.Type, reserve int64) value {
	return &omap{kt: kt, idx: map[string]*mentry{}}
}

// concreteKey renders a fully concrete key canonically; ok=false if it contains a symbol.
func concreteKey(v value) (string, bool) {
	var sb strings.Builder
	ok := writeKey(&sb, v)
	return sb.String(), ok
}

func writeKey(sb *strings.Builder, v value) bool {
	switch v := v.(type) {
	case *sym:
		return false
	case bool, int, int8, int16, int32, int64, uint, uint8, uint16, uint32, uint64, uintptr, float32, float64, complex64, complex128:
		fmt.Fprintf(sb, "%T:%v;", v, v)
	case string:
		fmt.Fprintf(sb, "s%d:%s;", len(v), v)
	case *value:
		fmt.Fprintf(sb, "p%x;", uintptr(unsafe.Pointer(v)))
	case *chanT:
		fmt.Fprintf(sb, "c%p;", v)
	case structure:
		sb.WriteString("{")
		for _, e := range v {
			if !writeKey(sb, e) {
				return false
			}
		}
		sb.WriteString("}")
	case array:
		sb.WriteString("[")
		for _, e := range v {
			if !writeKey(sb, e) {
				return false
			}
		}
		sb.WriteString("]")
	case iface:
		if v.t == nil {
			sb.WriteString("nil;")
			return true
		}
		fmt.Fprintf(sb, "i(%s)", v.t.String())
		return writeKey(sb, v.v)
	case rtype:
		fmt.Fprintf(sb, "rt(%s)", v.t.String())
	default:
		panic(fmt.Sprintf("unhashable map key %T", v))
	}
	return true
}

func (om *omap) find(m *machine, k value) *mentry {
	if om == nil {
		return nil
	}
	if str, ok := k.(string); ok && strings.Contains(str, symPlaceholder) {
		panic(engineError("a string formatted from a symbolic value is used as a map key: " + str))
	}
	ks, conc := concreteKey(k)
	if conc {
		if e := om.idx[ks]; e != nil {
			return e
		}
		if om.symKeys == 0 {
			return nil
		}
	}
	for _, e := range om.ents {
		if !e.live {
			continue
		}
		if conc {
			if _, ec := concreteKey(e.key); ec {
				continue // concrete keys were settled by the index
			}
		}
		if m.truth(equalsV(m, om.kt, k, e.key)) {
			return e
		}
	}
	return nil
}

func (om *omap) lookup(m *machine, k value) (value, bool) {
	if e := om.find(m, k); e != nil {
		return e.val, true
	}
	return nil, false
}

func (om *omap) insert(m *machine, k, v value) {
	if om == nil {
		panic(runtimeError("assignment to entry in nil map"))
	}
	if e := om.find(m, k); e != nil {
		e.val = v
		return
	}
	e := &mentry{key: k, val: v, live: true}
	om.ents = append(om.ents, e)
	om.n++
	if ks, conc := concreteKey(k); conc {
		om.idx[ks] = e
	} else {
		om.symKeys++
	}
}

func (om *omap) delete(m *machine, k value) {
	if om == nil {
		return
	}
	e := om.find(m, k)
	if e == nil {
		return
	}
	e.live = false
	om.n--
	if ks, conc := concreteKey(e.key); conc {
		delete(om.idx, ks)
	} else {
		om.symKeys--
	}
	// compact occasionally
	if len(om.ents) > 32 && om.n < len(om.ents)/2 {
		live := om.ents[:0:0]
		for _, e := range om.ents {
			if e.live {
				live = append(live, e)
			}
		}
		om.ents = live
	}
}

func (om *omap) clear() {
	if om == nil {
		return
	}
	for _, e := range om.ents {
		e.live = false
	}
	om.ents = nil
	om.n = 0
	om.idx = map[string]*mentry{}
	om.symKeys = 0
}

func (om *omap) len() int {
	if om == nil {
		return 0
	}
	return om.n
}

type omapIter struct {
	m    *machine
	rest []*mentry
	perm bool
}

func (om *omap) iter(m *machine) *omapIter {
	it := &omapIter{m: m}
	if om != nil {
		it.rest = append(it.rest, om.ents...)
		it.perm = m.h.MapOrder == "perm" && om.n <= m.h.MapPermMax
	}
	return it
}

func (it *omapIter) next() tuple {
	// drop entries deleted meanwhile
	live := it.rest[:0]
	for _, e := range it.rest {
		if e.live {
			live = append(live, e)
		}
	}
	it.rest = live
	if len(it.rest) == 0 {
		return tuple{false, nil, nil}
	}
	k := 0
	if it.perm && len(it.rest) > 1 {
		k = it.m.choose(len(it.rest))
		it.m.mapPerms++
	}
	e := it.rest[k]
	it.rest = append(it.rest[:k:k], it.rest[k+1:]...)
	return tuple{true, e.key, e.val}
}
