package interp

// Path exploration: replay-based forking over decision prefixes, distributed
// over worker goroutines with one set of solver processes each.

import (
	"fmt"
	"go/token"
	"go/types"
	"runtime"
	"sort"
	"strings"
	"sync"
	"time"

	"golang.org/x/tools/go/ssa"

	"symgo/smt"
)

// Harness describes one entry point and its exploration parameters.
type Harness struct {
	Name       string
	Fn         *ssa.Function
	Mode       smt.Mode
	Thorough   bool
	MapOrder   string // "" (insertion order) | "perm" (symbolic permutation)
	MapPermMax int
	MaxMake    int
	GoMaxProcs int
	SkipInit   bool     // do not run the harness package's init
	InitPkgs   []string // packages to initialise instead
	Sched      bool
	Preempt    int
	FreeYields bool // voluntary yields (verifrt.Yield, Gosched) do not count against the preemption bound
	Covers     []string
	MaxPaths   int
	Lim        Limits
	Solvers    []string
	Samples    int // number of paths for which a full model/trace is kept
	Race       bool // submit each query to all solvers at once
	KnownLabels map[string]bool // assertion labels listed as known findings for this harness

	mapOrderDepth int
}

// PathResult is what one explored path reports.
type PathResult struct {
	Prefix     []int
	Log        []int
	End        string // ok | pruned | panic | fatal | engine
	EndMsg     string
	Covers     []string
	Violations []Violation
	Inconcl    []string
	Obligs     int
	Discharged int
	Trivial    int
	Steps      int64
	FeasQ      int
	OblQ       int
	SolverTime time.Duration
	Uncertain  bool
	NumInputs  int
	MapPerms   int
	Sample     *PathSample
	Funcs      map[string]bool
	Stubs      map[string]bool
	Forks      [][]int
}

// PathSample is a fully concretised path: inputs under a model and the observations they produce.
type PathSample struct {
	Inputs   []ReplayInput `json:"inputs"`
	Observes []string      `json:"observes"`
	Outcome  string        `json:"outcome"`
	Path     []int         `json:"path"`
}

// Result aggregates a harness exploration.
type Result struct {
	Harness     string
	Paths       int
	Completed   int // paths that ran to the end of the harness
	Pruned      int
	Decisions   int
	Obligs      int
	Discharged  int
	Trivial     int
	Violations  []Violation
	NViolations int // all violating (path, assertion) pairs, including those not kept
	NKnown      int // of which: listed known findings
	knownKept   map[string]int
	Inconcl     []string
	Covers      map[string]int
	Steps       int64
	FeasQ       int
	OblQ        int
	SolverTime  time.Duration
	Wall        time.Duration
	Uncertain   int
	MaxInputs   int
	MapPerms    int
	Samples     []*PathSample
	Funcs       map[string]bool
	Stubs       map[string]bool
	SolverStats map[string][4]int // name -> sat, unsat, unknown, queries
	PathCapHit  bool
	DistinctSig map[string]bool
}

type worklist struct {
	mu     sync.Mutex
	cond   *sync.Cond
	items  [][]int
	active int
	done   bool
}

func (wl *worklist) push(ps [][]int) {
	wl.mu.Lock()
	wl.items = append(wl.items, ps...)
	wl.mu.Unlock()
	wl.cond.Broadcast()
}

func (wl *worklist) pop() ([]int, bool) {
	wl.mu.Lock()
	defer wl.mu.Unlock()
	for {
		if wl.done {
			return nil, false
		}
		if n := len(wl.items); n > 0 {
			p := wl.items[n-1]
			wl.items = wl.items[:n-1]
			wl.active++
			return p, true
		}
		if wl.active == 0 {
			wl.done = true
			wl.cond.Broadcast()
			return nil, false
		}
		wl.cond.Wait()
	}
}

func (wl *worklist) finish() {
	wl.mu.Lock()
	wl.active--
	if wl.active == 0 && len(wl.items) == 0 {
		wl.done = true
	}
	wl.mu.Unlock()
	wl.cond.Broadcast()
}

func (wl *worklist) stop() {
	wl.mu.Lock()
	wl.done = true
	wl.mu.Unlock()
	wl.cond.Broadcast()
}

// Explore runs the harness over all feasible paths.
func Explore(w *World, h *Harness, workers int) *Result {
	t0 := time.Now()
	res := &Result{Harness: h.Name, Covers: map[string]int{}, Funcs: map[string]bool{}, Stubs: map[string]bool{},
		SolverStats: map[string][4]int{}, DistinctSig: map[string]bool{}}
	wl := &worklist{}
	wl.cond = sync.NewCond(&wl.mu)
	wl.items = [][]int{{}}
	var rmu sync.Mutex
	var wg sync.WaitGroup
	if workers < 1 {
		workers = 1
	}
	for k := 0; k < workers; k++ {
		wg.Add(1)
		go func() {
			defer wg.Done()
			var procs []*smt.Proc
			for _, s := range h.Solvers {
				procs = append(procs, smt.NewProc(s))
			}
			defer func() {
				rmu.Lock()
				for _, p := range procs {
					st := res.SolverStats[p.Name]
					st[0] += p.ByResult[smt.Sat]
					st[1] += p.ByResult[smt.Unsat]
					st[2] += p.ByResult[smt.Unknown]
					st[3] += p.Queries
					res.SolverStats[p.Name] = st
					p.Close()
				}
				rmu.Unlock()
			}()
			for {
				prefix, ok := wl.pop()
				if !ok {
					return
				}
				rmu.Lock()
				wantSample := len(res.Samples) < h.Samples
				rmu.Unlock()
				pr := RunPath(w, h, prefix, procs, nil, wantSample)
				rmu.Lock()
				res.Paths++
				if debugProgress {
					fmt.Printf("path %d: end=%s %s log=%v steps=%d feasQ=%d oblQ=%d solver=%.2fs uncertain=%v forks=%d\n", res.Paths, pr.End, firstLine(pr.EndMsg), pr.Log, pr.Steps, pr.FeasQ, pr.OblQ, pr.SolverTime.Seconds(), pr.Uncertain, len(pr.Forks))
				}
				switch pr.End {
				case "ok":
					res.Completed++
				case "pruned":
					res.Pruned++
				case "engine":
					res.Inconcl = append(res.Inconcl, fmt.Sprintf("path %v: %s", pr.Log, pr.EndMsg))
				}
				res.Decisions += len(pr.Log) - len(pr.Prefix)
				res.Obligs += pr.Obligs
				res.Discharged += pr.Discharged
				res.Trivial += pr.Trivial
				for _, v := range pr.Violations {
					res.NViolations++
					if v.Kind == "assert" && h.KnownLabels[v.Label] {
						// a listed known finding: keep a few witnesses, and do not let
						// it count towards the early stop (other violations of the
						// property must still be searched for)
						res.NKnown++
						if res.knownKept[v.Label] >= 8 {
							continue
						}
						if res.knownKept == nil {
							res.knownKept = map[string]int{}
						}
						res.knownKept[v.Label]++
					}
					res.Violations = append(res.Violations, v)
				}
				for _, s := range pr.Inconcl {
					res.Inconcl = append(res.Inconcl, fmt.Sprintf("path %v: %s", pr.Log, s))
				}
				if !pr.Uncertain {
					for _, c := range pr.Covers {
						res.Covers[c]++
					}
				} else {
					res.Uncertain++
				}
				res.Steps += pr.Steps
				res.FeasQ += pr.FeasQ
				res.OblQ += pr.OblQ
				res.SolverTime += pr.SolverTime
				res.MapPerms += pr.MapPerms
				if pr.NumInputs > res.MaxInputs {
					res.MaxInputs = pr.NumInputs
				}
				if pr.Sample != nil && len(res.Samples) < h.Samples {
					res.Samples = append(res.Samples, pr.Sample)
				}
				for f := range pr.Funcs {
					res.Funcs[f] = true
				}
				for f := range pr.Stubs {
					res.Stubs[f] = true
				}
				sig := pr.End + "|" + strings.Join(pr.Covers, ",")
				res.DistinctSig[sig] = true
				capHit := h.MaxPaths > 0 && res.Paths >= h.MaxPaths
				if capHit {
					res.PathCapHit = true
				}
				tooMany := res.NViolations-res.NKnown > 50 || len(res.Inconcl) > 50
				rmu.Unlock()
				if capHit || tooMany {
					wl.stop()
				} else {
					wl.push(pr.Forks)
				}
				wl.finish()
			}
		}()
	}
	wg.Wait()
	wl.mu.Lock()
	if len(wl.items) > 0 && !res.PathCapHit && res.NViolations-res.NKnown <= 50 {
		res.Inconcl = append(res.Inconcl, fmt.Sprintf("exploration stopped early with %d prefixes pending", len(wl.items)))
	}
	if res.PathCapHit {
		res.Inconcl = append(res.Inconcl, fmt.Sprintf("path cap of %d reached with %d prefixes pending", h.MaxPaths, len(wl.items)))
	}
	wl.mu.Unlock()
	res.Wall = time.Since(t0)
	return res
}

func panicMessage(p any) string {
	switch p := p.(type) {
	case targetPanic:
		if itf, ok := p.v.(iface); ok {
			switch v := itf.v.(type) {
			case string:
				return v
			case *value:
				if v != nil {
					if s, ok := (*v).(structure); ok && len(s) > 0 {
						if str, ok := s[0].(string); ok {
							return str
						}
					}
				}
			}
			return toString(itf.v)
		}
		return toString(p.v)
	case runtimeError:
		return p.Error()
	case runtime.Error:
		return p.Error()
	case string:
		return p
	case fatalError:
		return string(p)
	}
	return fmt.Sprint(p)
}

// RunPath executes the harness once along the given decision prefix.
// concrete != nil selects concrete mode (inputs are taken from it).
func RunPath(w *World, h *Harness, prefix []int, procs []*smt.Proc, concrete []uint64, wantSample bool) (pr *PathResult) {
	for _, p := range procs {
		p.ResetPath()
	}
	hh := *h // per-path copy (mutable counters)
	m := &machine{
		w: w, h: &hh, ctx: smt.NewCtx(), script: smt.NewScript(h.Mode), solvers: procs, lim: h.Lim,
		prefix: prefix, known: map[int]bool{}, covers: map[string]bool{}, locks: map[*value]int{},
		funcsHit: map[string]bool{}, stubsHit: map[string]bool{},
	}
	if concrete != nil {
		m.isConcrete = true
		m.concrete = concrete
	}
	i := &interpreter{w: w, prog: w.Prog, globals: map[*ssa.Global]*value{}, m: m}
	pr = &PathResult{Prefix: prefix}
	finish := func() {
		pr.Log = m.log
		for c := range m.covers {
			pr.Covers = append(pr.Covers, c)
		}
		sort.Strings(pr.Covers)
		pr.Violations = m.violations
		pr.Inconcl = m.inconcl
		pr.Obligs, pr.Discharged, pr.Trivial = m.obligs, m.discharged, m.trivial
		pr.Steps = m.steps
		pr.FeasQ, pr.OblQ, pr.SolverTime = m.nFeasQ, m.nOblQ, m.solverTime
		pr.Uncertain = m.uncertain
		pr.NumInputs = len(m.inputs)
		pr.MapPerms = m.mapPerms
		pr.Funcs, pr.Stubs = m.funcsHit, m.stubsHit
		pr.Forks = m.forks
	}
	defer func() {
		p := recover()
		if p == nil {
			return
		}
		// a failure inside the path-end bookkeeping itself
		pr.End, pr.EndMsg = "engine", fmt.Sprintf("internal error: %v", p)
		finish()
	}()
	func() {
		defer func() {
			p := recover()
			if p == nil {
				pr.End = "ok"
				return
			}
			switch p := p.(type) {
			case pathEnd:
				pr.End, pr.EndMsg = "pruned", p.reason
			case engineError:
				pr.End, pr.EndMsg = "engine", string(p)
			case *runtime.TypeAssertionError:
				buf := make([]byte, 4096)
				n := runtime.Stack(buf, false)
				pr.End, pr.EndMsg = "engine", "executor type error: "+p.Error()+"\n"+string(buf[:n])
			case schedAbort:
				pr.End, pr.EndMsg = "pruned", p.reason
			case fatalError:
				pr.End, pr.EndMsg = "fatal", string(p)
				if !m.isConcrete {
					m.addViolation("fatal", "fatal", string(p), m.currentModel())
				}
			default:
				msg := panicMessage(p)
				pr.End, pr.EndMsg = "panic", msg
				if _, isStr := p.(string); isStr && strings.HasPrefix(msg, "unexpected") {
					pr.End = "engine"
					return
				}
				if !m.isConcrete {
					m.addViolation("panic", "panic", msg, m.currentModel())
				}
			}
		}()
		if m.h.Sched {
			m.sched = newCoopSched(m, i)
		}
		if h.SkipInit {
			// the harness package's own initialisers are not run (stated in the
			// spec); only the listed packages are initialised
			for _, pn := range h.InitPkgs {
				if p := w.Prog.ImportedPackage(pn); p != nil {
					if initFn := p.Func("init"); initFn != nil {
						call(i, nil, token.NoPos, initFn, nil)
					}
				}
			}
		} else if initFn := h.Fn.Pkg.Func("init"); initFn != nil {
			call(i, nil, token.NoPos, initFn, nil)
		}
		if m.sched != nil {
			m.sched.runMain(func() { call(i, nil, token.NoPos, h.Fn, nil) })
		} else {
			call(i, nil, token.NoPos, h.Fn, nil)
		}
	}()
	// paths with a failed obligation are replayed natively as counterexamples,
	// not as differential samples (after a failed assertion the native harness
	// continues whereas the executor may stop)
	if (wantSample && len(m.violations) == 0) || m.isConcrete {
		var model smt.Model
		if !m.isConcrete && pr.End != "engine" {
			model = m.currentModel()
		}
		if m.isConcrete || model != nil {
			s := &PathSample{Inputs: m.replayInputs(model), Outcome: pr.End, Path: append([]int(nil), m.log...)}
			if pr.End == "panic" || pr.End == "fatal" {
				s.Outcome = pr.End + ": " + firstLine(pr.EndMsg)
			}
			for _, o := range m.observes {
				s.Observes = append(s.Observes, o.Label+"="+obsString(o.Val, model))
			}
			pr.Sample = s
		}
	}
	finish()
	return pr
}

func firstLine(s string) string {
	if i := strings.IndexByte(s, '\n'); i >= 0 {
		return s[:i]
	}
	return s
}

// obsString renders an observed value under a model, the way verifrt prints it natively (%v).
func obsString(v value, model smt.Model) string {
	switch v := v.(type) {
	case *sym:
		raw, ok := smt.Eval(v.t, model)
		if !ok {
			return "<undef>"
		}
		return fmt.Sprintf("%v", concValue(v.k, raw))
	case bool, int, int8, int16, int32, int64, uint, uint8, uint16, uint32, uint64, uintptr, string, float64:
		return fmt.Sprintf("%v", v)
	case []value:
		parts := make([]string, len(v))
		for i, e := range v {
			parts[i] = obsString(e, model)
		}
		return "[" + strings.Join(parts, " ") + "]"
	case structure:
		parts := make([]string, len(v))
		for i, e := range v {
			parts[i] = obsString(e, model)
		}
		return "{" + strings.Join(parts, " ") + "}"
	case array:
		parts := make([]string, len(v))
		for i, e := range v {
			parts[i] = obsString(e, model)
		}
		return "[" + strings.Join(parts, " ") + "]"
	}
	return fmt.Sprintf("<%T>", v)
}

var _ = types.Typ
