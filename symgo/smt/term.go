// Package smt holds the term language of symgo: Go-level typed scalar terms
// (integers with a width and signedness, booleans, float64), hash-consed with
// constant folding, an evaluator (for models and replay), and two SMT-LIB2
// emitters that both keep Go's mod-2^w semantics: bit-vectors and
// mathematical integers with explicit wrap.
package smt

import (
	"crypto/sha256"
	"encoding/binary"
	"fmt"
	"math"
	"math/bits"
	"strings"
)

type Kind uint8

const (
	KBool Kind = iota
	KInt
	KF64
)

type Op uint8

const (
	OConst Op = iota
	OVar
	OAdd
	OSub
	OMul
	ODiv
	ORem
	ONeg
	OAnd
	OOr
	OXor
	ONot
	OShl
	OShr
	OEq
	OLt
	OLe
	OBAnd
	OBOr
	OBNot
	OIte
	OConv
	OI2F
	OF2I
	OFAdd
	OFSub
	OFMul
	OFDiv
	OFNeg
	OFCeil
	OFFloor
	OFLt
	OFLe
	OFEq
)

var opNames = [...]string{"const", "var", "add", "sub", "mul", "div", "rem", "neg", "and", "or", "xor", "not", "shl", "shr",
	"eq", "lt", "le", "band", "bor", "bnot", "ite", "conv", "i2f", "f2i", "fadd", "fsub", "fmul", "fdiv", "fneg", "fceil", "ffloor", "flt", "fle", "feq"}

func (o Op) String() string { return opNames[o] }

// Term is an immutable node of the term DAG.
type Term struct {
	Op     Op
	K      Kind
	W      int  // width in bits (KInt)
	Signed bool // KInt
	Args   []*Term
	Val    uint64 // OConst: raw bits (truncated to W) / 0,1 for bool / IEEE bits for f64
	Name   string // OVar
	ID     int
	H      [2]uint64 // structural hash (independent of the Ctx): keys the cross-path query cache
}

func (t *Term) IsConst() bool { return t.Op == OConst }

// Ctx hash-conses terms. One Ctx per explored path.
type Ctx struct {
	tab   map[string]*Term
	terms []*Term
	Vars  []*Term
}

func NewCtx() *Ctx { return &Ctx{tab: map[string]*Term{}} }

func (c *Ctx) NumTerms() int { return len(c.terms) }

func mask(w int) uint64 {
	if w >= 64 {
		return ^uint64(0)
	}
	return (uint64(1) << uint(w)) - 1
}

func sext(v uint64, w int) int64 {
	if w >= 64 {
		return int64(v)
	}
	sh := uint(64 - w)
	return int64(v<<sh) >> sh
}

func (c *Ctx) mk(t *Term) *Term {
	var sb strings.Builder
	fmt.Fprintf(&sb, "%d/%d/%d/%v/%d/%s", t.Op, t.K, t.W, t.Signed, t.Val, t.Name)
	for _, a := range t.Args {
		fmt.Fprintf(&sb, ",%d", a.ID)
	}
	k := sb.String()
	if x, ok := c.tab[k]; ok {
		return x
	}
	t.ID = len(c.terms)
	{
		hb := make([]byte, 0, 64+16*len(t.Args))
		hb = append(hb, fmt.Sprintf("%d/%d/%d/%v/%d/%s", t.Op, t.K, t.W, t.Signed, t.Val, t.Name)...)
		for _, a := range t.Args {
			hb = binary.LittleEndian.AppendUint64(hb, a.H[0])
			hb = binary.LittleEndian.AppendUint64(hb, a.H[1])
		}
		sum := sha256.Sum256(hb)
		t.H[0] = binary.LittleEndian.Uint64(sum[0:8])
		t.H[1] = binary.LittleEndian.Uint64(sum[8:16])
	}
	c.terms = append(c.terms, t)
	c.tab[k] = t
	if t.Op == OVar {
		c.Vars = append(c.Vars, t)
	}
	return t
}

func (c *Ctx) Int(v uint64, w int, signed bool) *Term {
	return c.mk(&Term{Op: OConst, K: KInt, W: w, Signed: signed, Val: v & mask(w)})
}
func (c *Ctx) Bool(b bool) *Term {
	v := uint64(0)
	if b {
		v = 1
	}
	return c.mk(&Term{Op: OConst, K: KBool, Val: v})
}
func (c *Ctx) F64(f float64) *Term {
	return c.mk(&Term{Op: OConst, K: KF64, Val: math.Float64bits(f)})
}
func (c *Ctx) Var(name string, k Kind, w int, signed bool) *Term {
	return c.mk(&Term{Op: OVar, K: k, W: w, Signed: signed, Name: name})
}

func allConst(args []*Term) bool {
	for _, a := range args {
		if a.Op != OConst {
			return false
		}
	}
	return true
}

// build creates a term, folding constants.
func (c *Ctx) build(t *Term) *Term {
	if allConst(t.Args) {
		v, ok := evalNode(t, func(i int) uint64 { return t.Args[i].Val })
		if ok {
			switch t.K {
			case KBool:
				return c.Bool(v != 0)
			case KInt:
				return c.Int(v, t.W, t.Signed)
			case KF64:
				return c.mk(&Term{Op: OConst, K: KF64, Val: v})
			}
		}
	}
	return c.mk(t)
}

// Bin builds an integer binary operation at the type of x.
func (c *Ctx) Bin(op Op, x, y *Term) *Term {
	if x.K != KInt || y.K != KInt {
		panic(fmt.Sprintf("smt.Bin: non-int operands for %v", op))
	}
	// identities
	switch op {
	case OAdd:
		if y.IsConst() && y.Val == 0 {
			return x
		}
		if x.IsConst() && x.Val == 0 {
			return y
		}
	case OSub:
		if y.IsConst() && y.Val == 0 {
			return x
		}
		if x == y {
			return c.Int(0, x.W, x.Signed)
		}
	case OMul:
		if y.IsConst() && y.Val == 1 {
			return x
		}
		if x.IsConst() && x.Val == 1 {
			return y
		}
		if (y.IsConst() && y.Val == 0) || (x.IsConst() && x.Val == 0) {
			return c.Int(0, x.W, x.Signed)
		}
	case ODiv:
		if y.IsConst() && y.Val == 1 {
			return x
		}
	case OAnd:
		if x == y {
			return x
		}
		if y.IsConst() && y.Val == mask(x.W) {
			return x
		}
		if (y.IsConst() && y.Val == 0) || (x.IsConst() && x.Val == 0) {
			return c.Int(0, x.W, x.Signed)
		}
	case OOr, OXor:
		if y.IsConst() && y.Val == 0 {
			return x
		}
		if x.IsConst() && x.Val == 0 {
			return y
		}
	case OShl, OShr:
		if y.IsConst() && y.Val == 0 {
			return x
		}
	}
	return c.build(&Term{Op: op, K: KInt, W: x.W, Signed: x.Signed, Args: []*Term{x, y}})
}

func (c *Ctx) Neg(x *Term) *Term {
	return c.build(&Term{Op: ONeg, K: KInt, W: x.W, Signed: x.Signed, Args: []*Term{x}})
}
func (c *Ctx) Not(x *Term) *Term {
	return c.build(&Term{Op: ONot, K: KInt, W: x.W, Signed: x.Signed, Args: []*Term{x}})
}

// Cmp builds OEq/OLt/OLe over ints (signedness of x), or OEq over bools.
func (c *Ctx) Cmp(op Op, x, y *Term) *Term {
	if x == y {
		switch op {
		case OEq, OLe:
			// a float converted from an integer is never NaN, so x == x holds
			if x.K != KF64 || x.Op == OI2F {
				return c.Bool(true)
			}
		case OLt:
			return c.Bool(false)
		}
	}
	if x.K == KF64 {
		switch op {
		case OEq:
			op = OFEq
		case OLt:
			op = OFLt
		case OLe:
			op = OFLe
		}
	}
	if x.K == KBool && op == OEq {
		if y.IsConst() {
			if y.Val != 0 {
				return x
			}
			return c.BNot(x)
		}
		if x.IsConst() {
			if x.Val != 0 {
				return y
			}
			return c.BNot(y)
		}
	}
	return c.build(&Term{Op: op, K: KBool, Args: []*Term{x, y}})
}

func (c *Ctx) BNot(x *Term) *Term {
	if x.Op == OBNot {
		return x.Args[0]
	}
	return c.build(&Term{Op: OBNot, K: KBool, Args: []*Term{x}})
}
func (c *Ctx) BAnd(x, y *Term) *Term {
	if x.IsConst() {
		if x.Val != 0 {
			return y
		}
		return x
	}
	if y.IsConst() {
		if y.Val != 0 {
			return x
		}
		return y
	}
	if x == y {
		return x
	}
	return c.build(&Term{Op: OBAnd, K: KBool, Args: []*Term{x, y}})
}
func (c *Ctx) BOr(x, y *Term) *Term {
	if x.IsConst() {
		if x.Val != 0 {
			return x
		}
		return y
	}
	if y.IsConst() {
		if y.Val != 0 {
			return y
		}
		return x
	}
	if x == y {
		return x
	}
	return c.build(&Term{Op: OBOr, K: KBool, Args: []*Term{x, y}})
}
func (c *Ctx) Ite(cond, x, y *Term) *Term {
	if cond.IsConst() {
		if cond.Val != 0 {
			return x
		}
		return y
	}
	if x == y {
		return x
	}
	return c.build(&Term{Op: OIte, K: x.K, W: x.W, Signed: x.Signed, Args: []*Term{cond, x, y}})
}

// Conv converts an int term to another int type (Go conversion semantics).
func (c *Ctx) Conv(x *Term, w int, signed bool) *Term {
	if x.W == w && x.Signed == signed {
		return x
	}
	return c.build(&Term{Op: OConv, K: KInt, W: w, Signed: signed, Args: []*Term{x}})
}
func (c *Ctx) I2F(x *Term) *Term { return c.build(&Term{Op: OI2F, K: KF64, Args: []*Term{x}}) }
func (c *Ctx) F2I(x *Term, w int, signed bool) *Term {
	return c.build(&Term{Op: OF2I, K: KInt, W: w, Signed: signed, Args: []*Term{x}})
}
func (c *Ctx) FBin(op Op, x, y *Term) *Term {
	return c.build(&Term{Op: op, K: KF64, Args: []*Term{x, y}})
}
func (c *Ctx) FUn(op Op, x *Term) *Term {
	return c.build(&Term{Op: op, K: KF64, Args: []*Term{x}})
}

// evalNode evaluates one node given its argument values.
func evalNode(t *Term, arg func(i int) uint64) (uint64, bool) {
	w := t.W
	switch t.Op {
	case OConst:
		return t.Val, true
	case OAdd:
		return (arg(0) + arg(1)) & mask(w), true
	case OSub:
		return (arg(0) - arg(1)) & mask(w), true
	case OMul:
		return (arg(0) * arg(1)) & mask(w), true
	case ODiv, ORem:
		a, b := arg(0), arg(1)
		if b == 0 {
			return 0, false
		}
		if t.Signed {
			x, y := sext(a, w), sext(b, w)
			if y == -1 { // avoid host overflow trap; wraps
				if t.Op == ODiv {
					return uint64(-x) & mask(w), true
				}
				return 0, true
			}
			if t.Op == ODiv {
				return uint64(x/y) & mask(w), true
			}
			return uint64(x%y) & mask(w), true
		}
		if t.Op == ODiv {
			return a / b, true
		}
		return a % b, true
	case ONeg:
		return (-arg(0)) & mask(w), true
	case OAnd:
		return arg(0) & arg(1), true
	case OOr:
		return arg(0) | arg(1), true
	case OXor:
		return arg(0) ^ arg(1), true
	case ONot:
		return (^arg(0)) & mask(w), true
	case OShl:
		s := arg(1)
		if s >= uint64(w) {
			return 0, true
		}
		return (arg(0) << s) & mask(w), true
	case OShr:
		s := arg(1)
		if t.Signed {
			x := sext(arg(0), w)
			if s >= 64 {
				s = 63
			}
			return uint64(x>>s) & mask(w), true
		}
		if s >= uint64(w) {
			return 0, true
		}
		return arg(0) >> s, true
	case OEq:
		return b2u(arg(0) == arg(1)), true
	case OLt, OLe:
		x := t.Args[0]
		a, b := arg(0), arg(1)
		var lt, eq bool
		if x.K == KInt && x.Signed {
			lt = sext(a, x.W) < sext(b, x.W)
		} else {
			lt = a < b
		}
		eq = a == b
		if t.Op == OLt {
			return b2u(lt), true
		}
		return b2u(lt || eq), true
	case OBAnd:
		return b2u(arg(0) != 0 && arg(1) != 0), true
	case OBOr:
		return b2u(arg(0) != 0 || arg(1) != 0), true
	case OBNot:
		return b2u(arg(0) == 0), true
	case OIte:
		if arg(0) != 0 {
			return arg(1), true
		}
		return arg(2), true
	case OConv:
		x := t.Args[0]
		v := arg(0)
		if x.Signed {
			v = uint64(sext(v, x.W))
		}
		return v & mask(w), true
	case OI2F:
		x := t.Args[0]
		if x.Signed {
			return math.Float64bits(float64(sext(arg(0), x.W))), true
		}
		return math.Float64bits(float64(arg(0))), true
	case OF2I:
		f := math.Float64frombits(arg(0))
		if f != f || math.IsInf(f, 0) {
			return 0, false
		}
		if t.Signed {
			if f >= 9.3e18 || f <= -9.3e18 {
				return 0, false
			}
			return uint64(int64(f)) & mask(w), true
		}
		if f < 0 || f >= 1.8446744073709552e19 {
			return 0, false
		}
		return uint64(f) & mask(w), true
	case OFAdd:
		return math.Float64bits(math.Float64frombits(arg(0)) + math.Float64frombits(arg(1))), true
	case OFSub:
		return math.Float64bits(math.Float64frombits(arg(0)) - math.Float64frombits(arg(1))), true
	case OFMul:
		return math.Float64bits(math.Float64frombits(arg(0)) * math.Float64frombits(arg(1))), true
	case OFDiv:
		return math.Float64bits(math.Float64frombits(arg(0)) / math.Float64frombits(arg(1))), true
	case OFNeg:
		return math.Float64bits(-math.Float64frombits(arg(0))), true
	case OFCeil:
		return math.Float64bits(math.Ceil(math.Float64frombits(arg(0)))), true
	case OFFloor:
		return math.Float64bits(math.Floor(math.Float64frombits(arg(0)))), true
	case OFLt:
		return b2u(math.Float64frombits(arg(0)) < math.Float64frombits(arg(1))), true
	case OFLe:
		return b2u(math.Float64frombits(arg(0)) <= math.Float64frombits(arg(1))), true
	case OFEq:
		return b2u(math.Float64frombits(arg(0)) == math.Float64frombits(arg(1))), true
	}
	return 0, false
}

func b2u(b bool) uint64 {
	if b {
		return 1
	}
	return 0
}

// Model maps variable names to raw values (same representation as Term.Val).
type Model map[string]uint64

// Eval evaluates t under m. Variables missing from m evaluate to 0.
// ok=false if evaluation hits an undefined operation (division by zero...).
func Eval(t *Term, m Model) (uint64, bool) {
	memo := map[int]uint64{}
	okAll := true
	var rec func(t *Term) uint64
	rec = func(t *Term) uint64 {
		if v, ok := memo[t.ID]; ok {
			return v
		}
		var v uint64
		switch t.Op {
		case OConst:
			v = t.Val
		case OVar:
			v = m[t.Name]
			if t.K == KInt {
				v &= mask(t.W)
			}
		case OIte:
			if rec(t.Args[0]) != 0 {
				v = rec(t.Args[1])
			} else {
				v = rec(t.Args[2])
			}
		default:
			vals := make([]uint64, len(t.Args))
			for i, a := range t.Args {
				vals[i] = rec(a)
			}
			var ok bool
			v, ok = evalNode(t, func(i int) uint64 { return vals[i] })
			if !ok {
				okAll = false
			}
		}
		memo[t.ID] = v
		return v
	}
	v := rec(t)
	return v, okAll
}

// Pow2 reports whether v is a power of two and its log.
func Pow2(v uint64) (int, bool) {
	if v != 0 && v&(v-1) == 0 {
		return bits.TrailingZeros64(v), true
	}
	return 0, false
}

// String renders a compact debug form.
func (t *Term) String() string {
	switch t.Op {
	case OConst:
		switch t.K {
		case KBool:
			return fmt.Sprint(t.Val != 0)
		case KF64:
			return fmt.Sprint(math.Float64frombits(t.Val))
		}
		if t.Signed {
			return fmt.Sprint(sext(t.Val, t.W))
		}
		return fmt.Sprint(t.Val)
	case OVar:
		return t.Name
	}
	var sb strings.Builder
	sb.WriteString("(" + t.Op.String())
	for _, a := range t.Args {
		sb.WriteString(" ")
		if sb.Len() > 400 {
			sb.WriteString("…")
			break
		}
		sb.WriteString(a.String())
	}
	sb.WriteString(")")
	return sb.String()
}
