package smt

import (
	"fmt"
	"math/big"
	"strings"
)

// Mode selects the encoding of Go integers.
type Mode int

const (
	ModeBV  Mode = iota // (_ BitVec w)
	ModeInt             // mathematical Int with explicit wrap
)

func (m Mode) String() string {
	if m == ModeBV {
		return "bv"
	}
	return "int"
}

// Script accumulates the declarations/definitions for the terms of one path.
// Lines are append-only; solvers consume them lazily.
type Script struct {
	Mode    Mode
	Lines   []string
	defined map[int]string // term id -> SMT name or inline text
	Err     error          // first unsupported construct
}

func NewScript(m Mode) *Script {
	return &Script{Mode: m, defined: map[int]string{}}
}

func sanitize(s string) string {
	var sb strings.Builder
	for _, r := range s {
		if (r >= 'a' && r <= 'z') || (r >= 'A' && r <= 'Z') || (r >= '0' && r <= '9') || r == '_' {
			sb.WriteRune(r)
		} else {
			sb.WriteByte('_')
		}
	}
	return sb.String()
}

func pow2(w int) string {
	return new(big.Int).Lsh(big.NewInt(1), uint(w)).String()
}

func intLit(v *big.Int) string {
	if v.Sign() < 0 {
		return "(- " + new(big.Int).Neg(v).String() + ")"
	}
	return v.String()
}

func (s *Script) sortOf(t *Term) string {
	switch t.K {
	case KBool:
		return "Bool"
	case KF64:
		return "(_ FloatingPoint 11 53)"
	}
	if s.Mode == ModeBV {
		return fmt.Sprintf("(_ BitVec %d)", t.W)
	}
	return "Int"
}

func (s *Script) fail(format string, a ...any) string {
	if s.Err == nil {
		s.Err = fmt.Errorf(format, a...)
	}
	return "false"
}

// Ref returns the SMT-LIB name of t, emitting definitions as needed.
func (s *Script) Ref(t *Term) string {
	if n, ok := s.defined[t.ID]; ok {
		return n
	}
	var n string
	switch t.Op {
	case OConst:
		n = s.constLit(t)
	case OVar:
		n = "v_" + sanitize(t.Name)
		s.Lines = append(s.Lines, fmt.Sprintf("(declare-const %s %s)", n, s.sortOf(t)))
		if s.Mode == ModeInt && t.K == KInt {
			lo, hi := rangeOf(t.W, t.Signed)
			s.Lines = append(s.Lines, fmt.Sprintf("(assert (and (<= %s %s) (<= %s %s)))", intLit(lo), n, n, intLit(hi)))
		}
	default:
		args := make([]string, len(t.Args))
		for i, a := range t.Args {
			args[i] = s.Ref(a)
		}
		var body string
		if t.K == KF64 || (len(t.Args) > 0 && t.Args[0].K == KF64) || t.Op == OI2F {
			body = s.fpBody(t, args)
		} else if s.Mode == ModeBV {
			body = s.bvBody(t, args)
		} else {
			body = s.intBody(t, args)
		}
		n = fmt.Sprintf("t%d", t.ID)
		s.Lines = append(s.Lines, fmt.Sprintf("(define-fun %s () %s %s)", n, s.sortOf(t), body))
	}
	s.defined[t.ID] = n
	return n
}

func rangeOf(w int, signed bool) (*big.Int, *big.Int) {
	one := big.NewInt(1)
	if signed {
		h := new(big.Int).Lsh(one, uint(w-1))
		return new(big.Int).Neg(h), new(big.Int).Sub(h, one)
	}
	return big.NewInt(0), new(big.Int).Sub(new(big.Int).Lsh(one, uint(w)), one)
}

func (s *Script) constLit(t *Term) string {
	switch t.K {
	case KBool:
		if t.Val != 0 {
			return "true"
		}
		return "false"
	case KF64:
		b := t.Val
		return fmt.Sprintf("(fp #b%b #b%011b #b%052b)", b>>63, (b>>52)&0x7ff, b&((1<<52)-1))
	}
	if s.Mode == ModeBV {
		return fmt.Sprintf("(_ bv%d %d)", t.Val, t.W)
	}
	if t.Signed {
		return intLit(big.NewInt(sext(t.Val, t.W)))
	}
	return new(big.Int).SetUint64(t.Val).String()
}

func (s *Script) bvBody(t *Term, a []string) string {
	w := t.W
	switch t.Op {
	case OAdd:
		return fmt.Sprintf("(bvadd %s %s)", a[0], a[1])
	case OSub:
		return fmt.Sprintf("(bvsub %s %s)", a[0], a[1])
	case OMul:
		return fmt.Sprintf("(bvmul %s %s)", a[0], a[1])
	case ODiv:
		if t.Signed {
			return fmt.Sprintf("(bvsdiv %s %s)", a[0], a[1])
		}
		return fmt.Sprintf("(bvudiv %s %s)", a[0], a[1])
	case ORem:
		if t.Signed {
			return fmt.Sprintf("(bvsrem %s %s)", a[0], a[1])
		}
		return fmt.Sprintf("(bvurem %s %s)", a[0], a[1])
	case ONeg:
		return fmt.Sprintf("(bvneg %s)", a[0])
	case OAnd:
		return fmt.Sprintf("(bvand %s %s)", a[0], a[1])
	case OOr:
		return fmt.Sprintf("(bvor %s %s)", a[0], a[1])
	case OXor:
		return fmt.Sprintf("(bvxor %s %s)", a[0], a[1])
	case ONot:
		return fmt.Sprintf("(bvnot %s)", a[0])
	case OShl, OShr:
		y := t.Args[1]
		amt := a[1]
		guard := ""
		if y.W < w {
			amt = fmt.Sprintf("((_ zero_extend %d) %s)", w-y.W, amt)
		} else if y.W > w {
			guard = fmt.Sprintf("(bvuge %s (_ bv%d %d))", a[1], w, y.W)
			amt = fmt.Sprintf("((_ extract %d 0) %s)", w-1, amt)
		}
		var op, over string
		switch {
		case t.Op == OShl:
			op, over = "bvshl", fmt.Sprintf("(_ bv0 %d)", w)
		case t.Signed:
			op = "bvashr"
			over = fmt.Sprintf("(bvashr %s (_ bv%d %d))", a[0], w-1, w)
		default:
			op, over = "bvlshr", fmt.Sprintf("(_ bv0 %d)", w)
		}
		r := fmt.Sprintf("(%s %s %s)", op, a[0], amt)
		if guard != "" {
			r = fmt.Sprintf("(ite %s %s %s)", guard, over, r)
		}
		return r
	case OEq:
		return fmt.Sprintf("(= %s %s)", a[0], a[1])
	case OLt:
		if t.Args[0].K == KInt && t.Args[0].Signed {
			return fmt.Sprintf("(bvslt %s %s)", a[0], a[1])
		}
		return fmt.Sprintf("(bvult %s %s)", a[0], a[1])
	case OLe:
		if t.Args[0].K == KInt && t.Args[0].Signed {
			return fmt.Sprintf("(bvsle %s %s)", a[0], a[1])
		}
		return fmt.Sprintf("(bvule %s %s)", a[0], a[1])
	case OBAnd:
		return fmt.Sprintf("(and %s %s)", a[0], a[1])
	case OBOr:
		return fmt.Sprintf("(or %s %s)", a[0], a[1])
	case OBNot:
		return fmt.Sprintf("(not %s)", a[0])
	case OIte:
		return fmt.Sprintf("(ite %s %s %s)", a[0], a[1], a[2])
	case OConv:
		x := t.Args[0]
		switch {
		case w == x.W:
			return a[0]
		case w < x.W:
			return fmt.Sprintf("((_ extract %d 0) %s)", w-1, a[0])
		case x.Signed:
			return fmt.Sprintf("((_ sign_extend %d) %s)", w-x.W, a[0])
		default:
			return fmt.Sprintf("((_ zero_extend %d) %s)", w-x.W, a[0])
		}
	}
	return s.fail("bv emitter: unsupported op %v", t.Op)
}

func (s *Script) fpBody(t *Term, a []string) string {
	switch t.Op {
	case OI2F:
		x := t.Args[0]
		if s.Mode == ModeInt {
			return fmt.Sprintf("((_ to_fp 11 53) RNE (to_real %s))", a[0])
		}
		if x.Signed {
			return fmt.Sprintf("((_ to_fp 11 53) RNE %s)", a[0])
		}
		return fmt.Sprintf("((_ to_fp_unsigned 11 53) RNE %s)", a[0])
	case OF2I:
		if s.Mode == ModeInt {
			// truncation toward zero of a finite float; callers guard range.
			return fmt.Sprintf("(let ((r (fp.to_real %s))) (ite (>= r 0.0) (to_int r) (- (to_int (- r)))))", a[0])
		}
		if t.Signed {
			return fmt.Sprintf("((_ fp.to_sbv %d) RTZ %s)", t.W, a[0])
		}
		return fmt.Sprintf("((_ fp.to_ubv %d) RTZ %s)", t.W, a[0])
	case OFAdd:
		return fmt.Sprintf("(fp.add RNE %s %s)", a[0], a[1])
	case OFSub:
		return fmt.Sprintf("(fp.sub RNE %s %s)", a[0], a[1])
	case OFMul:
		return fmt.Sprintf("(fp.mul RNE %s %s)", a[0], a[1])
	case OFDiv:
		return fmt.Sprintf("(fp.div RNE %s %s)", a[0], a[1])
	case OFNeg:
		return fmt.Sprintf("(fp.neg %s)", a[0])
	case OFCeil:
		return fmt.Sprintf("(fp.roundToIntegral RTP %s)", a[0])
	case OFFloor:
		return fmt.Sprintf("(fp.roundToIntegral RTN %s)", a[0])
	case OFLt:
		return fmt.Sprintf("(fp.lt %s %s)", a[0], a[1])
	case OFLe:
		return fmt.Sprintf("(fp.leq %s %s)", a[0], a[1])
	case OFEq:
		return fmt.Sprintf("(fp.eq %s %s)", a[0], a[1])
	case OIte:
		return fmt.Sprintf("(ite %s %s %s)", a[0], a[1], a[2])
	}
	return s.fail("fp emitter: unsupported op %v", t.Op)
}

// wrap reduces the mathematical integer expression e into the range of (w,signed).
func wrapInt(e string, w int, signed bool) string {
	if signed {
		h := pow2(w - 1)
		return fmt.Sprintf("(- (mod (+ %s %s) %s) %s)", e, h, pow2(w), h)
	}
	return fmt.Sprintf("(mod %s %s)", e, pow2(w))
}

// wrap1 reduces e known to lie within one modulus of the range (after + or -).
func wrap1(e string, w int, signed bool) string {
	m := pow2(w)
	if signed {
		h := pow2(w - 1)
		return fmt.Sprintf("(let ((s %s)) (ite (>= s %s) (- s %s) (ite (< s (- %s)) (+ s %s) s)))", e, h, m, h, m)
	}
	return fmt.Sprintf("(let ((s %s)) (ite (>= s %s) (- s %s) (ite (< s 0) (+ s %s) s)))", e, m, m, m)
}

func toSigned(u string, w int) string {
	return fmt.Sprintf("(let ((u %s)) (ite (>= u %s) (- u %s) u))", u, pow2(w-1), pow2(w))
}

func (s *Script) viaBV(t *Term, op string, a []string) string {
	w := t.W
	var e string
	if len(a) == 2 {
		e = fmt.Sprintf("(bv2nat (%s ((_ int2bv %d) %s) ((_ int2bv %d) %s)))", op, w, a[0], w, a[1])
	} else {
		e = fmt.Sprintf("(bv2nat (%s ((_ int2bv %d) %s)))", op, w, a[0])
	}
	if t.Signed {
		return toSigned(e, w)
	}
	return e
}

func (s *Script) intBody(t *Term, a []string) string {
	w := t.W
	switch t.Op {
	case OAdd:
		return wrap1(fmt.Sprintf("(+ %s %s)", a[0], a[1]), w, t.Signed)
	case OSub:
		return wrap1(fmt.Sprintf("(- %s %s)", a[0], a[1]), w, t.Signed)
	case OMul:
		return wrapInt(fmt.Sprintf("(* %s %s)", a[0], a[1]), w, t.Signed)
	case ONeg:
		return wrap1(fmt.Sprintf("(- %s)", a[0]), w, t.Signed)
	case ODiv:
		if !t.Signed {
			return fmt.Sprintf("(div %s %s)", a[0], a[1])
		}
		q := fmt.Sprintf("(let ((x %s) (y %s)) (ite (>= x 0) (ite (> y 0) (div x y) (- (div x (- y)))) (ite (> y 0) (- (div (- x) y)) (div (- x) (- y)))))", a[0], a[1])
		return wrap1(q, w, true)
	case ORem:
		if !t.Signed {
			return fmt.Sprintf("(mod %s %s)", a[0], a[1])
		}
		return fmt.Sprintf("(let ((x %s) (y %s)) (ite (>= x 0) (mod x (abs y)) (- (mod (- x) (abs y)))))", a[0], a[1])
	case OAnd:
		// x & (2^k-1) on a non-negative x is mod 2^k
		if y := t.Args[1]; y.IsConst() && !t.Signed {
			if k, ok := Pow2(y.Val + 1); ok && y.Val != ^uint64(0) {
				return fmt.Sprintf("(mod %s %s)", a[0], pow2(k))
			}
		}
		if x := t.Args[0]; x.IsConst() && !t.Signed {
			if k, ok := Pow2(x.Val + 1); ok && x.Val != ^uint64(0) {
				return fmt.Sprintf("(mod %s %s)", a[1], pow2(k))
			}
		}
		return s.viaBV(t, "bvand", a)
	case OOr:
		return s.viaBV(t, "bvor", a)
	case OXor:
		return s.viaBV(t, "bvxor", a)
	case ONot:
		if t.Signed {
			return fmt.Sprintf("(- (- %s) 1)", a[0])
		}
		return fmt.Sprintf("(- %s %s)", new(big.Int).Sub(new(big.Int).Lsh(big.NewInt(1), uint(w)), big.NewInt(1)).String(), a[0])
	case OShl:
		if y := t.Args[1]; y.IsConst() {
			if y.Val >= uint64(w) {
				return "0"
			}
			return wrapInt(fmt.Sprintf("(* %s %s)", a[0], pow2(int(y.Val))), w, t.Signed)
		}
		return s.fail("int emitter: shift left by a symbolic amount")
	case OShr:
		if y := t.Args[1]; y.IsConst() {
			k := y.Val
			if k >= uint64(w) {
				if t.Signed {
					return fmt.Sprintf("(ite (< %s 0) (- 1) 0)", a[0])
				}
				return "0"
			}
			return fmt.Sprintf("(div %s %s)", a[0], pow2(int(k)))
		}
		return s.fail("int emitter: shift right by a symbolic amount")
	case OEq:
		return fmt.Sprintf("(= %s %s)", a[0], a[1])
	case OLt:
		return fmt.Sprintf("(< %s %s)", a[0], a[1])
	case OLe:
		return fmt.Sprintf("(<= %s %s)", a[0], a[1])
	case OBAnd:
		return fmt.Sprintf("(and %s %s)", a[0], a[1])
	case OBOr:
		return fmt.Sprintf("(or %s %s)", a[0], a[1])
	case OBNot:
		return fmt.Sprintf("(not %s)", a[0])
	case OIte:
		return fmt.Sprintf("(ite %s %s %s)", a[0], a[1], a[2])
	case OConv:
		x := t.Args[0]
		switch {
		case x.Signed == t.Signed && w >= x.W:
			return a[0]
		case !x.Signed && t.Signed && w > x.W:
			return a[0]
		}
		u := a[0]
		if x.Signed || w < x.W {
			u = fmt.Sprintf("(mod %s %s)", a[0], pow2(w))
		}
		if t.Signed {
			return toSigned(u, w)
		}
		return u
	}
	return s.fail("int emitter: unsupported op %v", t.Op)
}
