package smt

import (
	"bufio"
	"fmt"
	"io"
	"math/big"
	"os/exec"
	"strconv"
	"strings"
	"sync"
	"sync/atomic"
	"time"
)

type Result int

const (
	Unknown Result = iota
	Sat
	Unsat
)

func (r Result) String() string { return [...]string{"unknown", "sat", "unsat"}[r] }

// Proc is one long-lived solver process.
type Proc struct {
	Name   string
	argv   []string
	isCVC5 bool
	cmd    *exec.Cmd
	in     io.WriteCloser
	out    *bufio.Reader
	sent   int  // number of script lines already sent for the current path
	open   bool // a (push 1) for the current path is outstanding
	dead   bool
	pmu    sync.Mutex // guards cmd against Interrupt from another goroutine
	intr   atomic.Bool
	lastTimeout int
	// statistics
	Queries  int
	ByResult [3]int
	Time     time.Duration
	Restarts int
}

func NewProc(name string) *Proc {
	p := &Proc{Name: name}
	switch name {
	case "z3":
		p.argv = []string{"z3", "-in"}
	case "z3-new":
		p.argv = []string{"z3-new", "-in"}
	case "cvc5":
		p.argv = []string{"cvc5", "--incremental", "--lang=smt2", "--produce-models", "-q"}
		p.isCVC5 = true
	default:
		panic("unknown solver " + name)
	}
	return p
}

func (p *Proc) start() error {
	cmd := exec.Command(p.argv[0], p.argv[1:]...)
	in, err := cmd.StdinPipe()
	if err != nil {
		return err
	}
	out, err := cmd.StdoutPipe()
	if err != nil {
		return err
	}
	cmd.Stderr = nil
	if err := cmd.Start(); err != nil {
		return err
	}
	p.pmu.Lock()
	p.cmd = cmd
	p.pmu.Unlock()
	p.in, p.out = in, bufio.NewReaderSize(out, 1<<16)
	p.sent, p.open, p.dead = 0, false, false
	p.lastTimeout = -1
	if p.isCVC5 {
		fmt.Fprintln(p.in, "(set-logic ALL)")
	} else {
		fmt.Fprintln(p.in, "(set-option :produce-models true)")
	}
	return nil
}

// Interrupt kills the solver process from another goroutine; the Check in
// flight returns unknown and the process is restarted lazily.
func (p *Proc) Interrupt() {
	p.pmu.Lock()
	defer p.pmu.Unlock()
	p.intr.Store(true)
	if p.cmd != nil && p.cmd.Process != nil {
		p.cmd.Process.Kill()
	}
}

func (p *Proc) Kill() {
	p.pmu.Lock()
	cmd := p.cmd
	p.cmd = nil
	p.pmu.Unlock()
	if cmd != nil && cmd.Process != nil {
		cmd.Process.Kill()
		cmd.Wait()
	}
	p.dead = true
	p.open = false
	p.sent = 0
}

// Close terminates the process.
func (p *Proc) Close() {
	if p.cmd != nil {
		p.in.Close()
		p.Kill()
	}
}

// ResetPath drops everything asserted for the previous path.
func (p *Proc) ResetPath() {
	if p.cmd == nil || p.dead {
		return
	}
	if p.open {
		fmt.Fprintln(p.in, "(pop 1)")
		p.open = false
	}
	p.sent = 0
}

var SolverDebug atomic.Bool

type lineOrErr struct {
	s   string
	err error
}

// readSexp reads one complete response (a line, or a balanced s-expression) with a deadline.
func (p *Proc) readResp(deadline time.Duration) (string, error) {
	ch := make(chan lineOrErr, 1)
	go func() {
		var sb strings.Builder
		depth := 0
		started := false
		for {
			line, err := p.out.ReadString('\n')
			if err != nil {
				ch <- lineOrErr{sb.String(), err}
				return
			}
			inStr := false
			for _, r := range line {
				switch {
				case r == '"':
					inStr = !inStr
				case inStr:
				case r == '(':
					depth++
					started = true
				case r == ')':
					depth--
				}
			}
			sb.WriteString(line)
			if strings.TrimSpace(sb.String()) == "" {
				continue
			}
			if !started || depth <= 0 {
				ch <- lineOrErr{strings.TrimSpace(sb.String()), nil}
				return
			}
		}
	}()
	select {
	case r := <-ch:
		return r.s, r.err
	case <-time.After(deadline):
		return "", fmt.Errorf("solver %s: no answer within %v", p.Name, deadline)
	}
}

// Check decides sat(script ∧ extra...) with a timeout. If wantModel and sat, returns values for vars.
func (p *Proc) Check(sc *Script, extra []string, timeout time.Duration, vars []*Term) (res Result, model Model, err error) {
	p.intr.Store(false)
	defer func() {
		if p.intr.Load() {
			// interrupted by the portfolio after another solver answered: not an error
			if !p.dead {
				p.Kill()
			}
			res, model, err = Unknown, nil, nil
		}
	}()
	if p.cmd == nil || p.dead {
		if p.cmd != nil {
			p.Restarts++
		}
		if err := p.start(); err != nil {
			return Unknown, nil, err
		}
	}
	t0 := time.Now()
	defer func() { p.Time += time.Since(t0); p.Queries++ }()
	var sb strings.Builder
	if !p.open {
		sb.WriteString("(push 1)\n")
		p.open = true
	}
	for _, l := range sc.Lines[p.sent:] {
		sb.WriteString(l)
		sb.WriteByte('\n')
	}
	p.sent = len(sc.Lines)
	ms := int(timeout / time.Millisecond)
	if ms != p.lastTimeout {
		// re-sending the option on every query costs z3 ~7 ms each (measured)
		if p.isCVC5 {
			fmt.Fprintf(&sb, "(set-option :tlimit-per %d)\n", ms)
		} else {
			fmt.Fprintf(&sb, "(set-option :timeout %d)\n", ms)
		}
		p.lastTimeout = ms
	}
	sb.WriteString("(push 1)\n")
	for _, e := range extra {
		fmt.Fprintf(&sb, "(assert %s)\n", e)
	}
	sb.WriteString("(check-sat)\n")
	if SolverDebug.Load() {
		fmt.Printf("--- %s <<\n%s", p.Name, sb.String())
	}
	if _, err := io.WriteString(p.in, sb.String()); err != nil {
		p.Kill()
		return Unknown, nil, err
	}
	resp, err := p.readResp(2*timeout + 10*time.Second)
	if SolverDebug.Load() {
		fmt.Printf("--- %s >> %s\n", p.Name, resp)
	}
	if err != nil {
		p.Kill()
		p.ByResult[Unknown]++
		return Unknown, nil, nil
	}
	switch {
	case resp == "sat":
		res = Sat
	case resp == "unsat":
		res = Unsat
	case resp == "unknown" || strings.Contains(resp, "timeout") || strings.Contains(resp, "interrupted") || strings.Contains(resp, "canceled"):
		// a timed-out z3 keeps its cancel flag set and answers the following
		// (pop)/(push) with "(error ... canceled)", which would be read as the
		// answer to the next query: restart the process instead (lazily).
		p.Kill()
		p.ByResult[Unknown]++
		return Unknown, nil, nil
	default:
		// (error ...) or anything unexpected: inconclusive, and restart the solver
		p.Kill()
		p.ByResult[Unknown]++
		return Unknown, nil, fmt.Errorf("solver %s: %s", p.Name, resp)
	}
	p.ByResult[res]++
	if res == Sat && len(vars) > 0 {
		var q strings.Builder
		q.WriteString("(get-value (")
		for _, v := range vars {
			q.WriteString(sc.Ref(v))
			q.WriteByte(' ')
		}
		q.WriteString("))\n")
		io.WriteString(p.in, q.String())
		mresp, err := p.readResp(30 * time.Second)
		if err != nil || strings.HasPrefix(mresp, "(error") {
			p.Kill()
			return Unknown, nil, fmt.Errorf("solver %s: get-value: %v %s", p.Name, err, mresp)
		}
		model, err = parseModel(mresp, vars, sc)
		if err != nil {
			p.Kill()
			return Unknown, nil, err
		}
	}
	if _, err := io.WriteString(p.in, "(pop 1)\n"); err != nil {
		p.Kill()
	}
	return res, model, nil
}

// --- s-expression model parsing ---

type sexp struct {
	atom string
	list []*sexp
}

func parseSexp(s string) (*sexp, error) {
	pos := 0
	var parse func() (*sexp, error)
	skip := func() {
		for pos < len(s) && (s[pos] == ' ' || s[pos] == '\n' || s[pos] == '\t' || s[pos] == '\r') {
			pos++
		}
	}
	parse = func() (*sexp, error) {
		skip()
		if pos >= len(s) {
			return nil, fmt.Errorf("unexpected end")
		}
		if s[pos] == '(' {
			pos++
			n := &sexp{list: []*sexp{}}
			for {
				skip()
				if pos >= len(s) {
					return nil, fmt.Errorf("unbalanced")
				}
				if s[pos] == ')' {
					pos++
					return n, nil
				}
				c, err := parse()
				if err != nil {
					return nil, err
				}
				n.list = append(n.list, c)
			}
		}
		st := pos
		for pos < len(s) && !strings.ContainsRune(" \n\t\r()", rune(s[pos])) {
			pos++
		}
		return &sexp{atom: s[st:pos]}, nil
	}
	return parse()
}

func (e *sexp) isList() bool { return e.list != nil }

func parseBVAtom(a string) (uint64, bool) {
	if strings.HasPrefix(a, "#x") {
		v, err := strconv.ParseUint(a[2:], 16, 64)
		return v, err == nil
	}
	if strings.HasPrefix(a, "#b") {
		v, err := strconv.ParseUint(a[2:], 2, 64)
		return v, err == nil
	}
	return 0, false
}

func parseValue(e *sexp, v *Term, mode Mode) (uint64, error) {
	switch v.K {
	case KBool:
		if e.atom == "true" {
			return 1, nil
		}
		if e.atom == "false" {
			return 0, nil
		}
	case KInt:
		if mode == ModeBV {
			if x, ok := parseBVAtom(e.atom); ok {
				return x, nil
			}
			if e.isList() && len(e.list) == 3 && e.list[0].atom == "_" && strings.HasPrefix(e.list[1].atom, "bv") {
				x, err := strconv.ParseUint(e.list[1].atom[2:], 10, 64)
				return x, err
			}
		} else {
			neg := false
			a := e.atom
			if e.isList() && len(e.list) == 2 && e.list[0].atom == "-" {
				neg = true
				a = e.list[1].atom
			}
			b, ok := new(big.Int).SetString(a, 10)
			if ok {
				if neg {
					b.Neg(b)
				}
				m := new(big.Int).Lsh(big.NewInt(1), 64)
				b.Mod(b, m)
				return b.Uint64() & mask(v.W), nil
			}
		}
	case KF64:
		if e.isList() && len(e.list) == 4 && e.list[0].atom == "fp" {
			s, ok1 := parseBVAtom(e.list[1].atom)
			ex, ok2 := parseBVAtom(e.list[2].atom)
			m, ok3 := parseBVAtom(e.list[3].atom)
			if ok1 && ok2 && ok3 {
				return s<<63 | ex<<52 | m, nil
			}
		}
		if e.isList() && len(e.list) == 4 && e.list[0].atom == "_" {
			switch e.list[1].atom {
			case "+zero":
				return 0, nil
			case "-zero":
				return 1 << 63, nil
			case "+oo":
				return 0x7ff << 52, nil
			case "-oo":
				return 0xfff << 52, nil
			case "NaN":
				return 0x7ff8 << 48, nil
			}
		}
	}
	return 0, fmt.Errorf("cannot parse model value %v for %s", e, v.Name)
}

func (e *sexp) String() string {
	if !e.isList() {
		return e.atom
	}
	parts := []string{}
	for _, c := range e.list {
		parts = append(parts, c.String())
	}
	return "(" + strings.Join(parts, " ") + ")"
}

func parseModel(resp string, vars []*Term, sc *Script) (Model, error) {
	e, err := parseSexp(resp)
	if err != nil {
		return nil, fmt.Errorf("model parse: %v in %q", err, resp)
	}
	if !e.isList() || len(e.list) != len(vars) {
		return nil, fmt.Errorf("model: expected %d pairs, got %s", len(vars), resp)
	}
	m := Model{}
	for i, pair := range e.list {
		if !pair.isList() || len(pair.list) != 2 {
			return nil, fmt.Errorf("model: bad pair %s", pair)
		}
		x, err := parseValue(pair.list[1], vars[i], sc.Mode)
		if err != nil {
			return nil, err
		}
		m[vars[i].Name] = x
	}
	return m, nil
}
