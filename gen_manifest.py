#!/usr/bin/env python3
"""Generates MANIFEST.json from harness/*/spec.json + manifest_meta.json (per-property texts)."""
import json, os, glob
meta = json.load(open('/verif/manifest_meta.json'))
checks = []
for pid in sorted(meta['checks']):
    m = meta['checks'][pid]
    if not os.path.exists(f'/verif/harness/{pid}/spec.json'):
        continue
    checks.append({
        "property_id": pid,
        "quick_cmd": f"./check {pid} quick",
        "thorough_cmd": f"./check {pid} thorough",
        "evidence_file": f"/verif/evidence/{pid}.json",
        "replay_cmd_template": "./symgo/bin/symgo replay {path}",
        "engine": "symgo",
        "level_claimed": {"category": "model_checking", "text": m["text"], "design_ref": m.get("design_ref", "DESIGN.md §4 " + pid)},
        "level_note": m["note"],
        "technique": m.get("technique", "bounded symbolic execution of the real go/ssa code + SMT (z3/cvc5)"),
    })
claimed = {c["property_id"] for c in checks}
na = [{"property_id": k, "reason": v} for k, v in sorted(meta['not_applicable'].items()) if k not in claimed]
man = {
    "version": 1,
    "setup_cmd": "cd /verif/symgo && PATH=/opt/veriftools/go1.26.8/bin:$PATH GOTOOLCHAIN=local GOFLAGS=-mod=mod GOPROXY=off go build -o bin/symgo ./cmd/symgo",
    "hooks": {
        "guard": "verif",
        "enable": "none needed: harnesses and the verifrt runtime are injected with go/packages overlays and `go build -overlay`; /repo carries no hook code",
        "baseline_off_cmd": "cd /repo && PATH=/opt/veriftools/go1.26.8/bin:$PATH GOTOOLCHAIN=local GOFLAGS=-mod=mod GOPROXY=off go test -vet=off -count=1 -timeout 25m ./...",
        "source_commits": [],
        "add_only": True,
    },
    "engines": [{
        "name": "symgo", "path": "/verif/symgo",
        "serves_properties": sorted(claimed),
        "kind_free_text": "symbolic executor for go/ssa (port of x/tools go/ssa/interp with symbolic scalars, replay-based path forking, SMT-LIB2 bit-vector and integer encodings, z3/z3-new/cvc5 portfolio, native replay of every model)"
    }],
    "checks": checks,
    "not_applicable": na,
    "notes": meta.get("notes", ""),
}
json.dump(man, open('/verif/MANIFEST.json', 'w'), indent=1)
print("checks:", len(checks), "n/a:", len(na))
