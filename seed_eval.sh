#!/bin/bash
# seed_eval.sh <prop> [name] — confirm a seeded regression from /tmp/seed_out/<prop> in its scratch worktree,
# run the check(s) against it in /repo, undo, and file it under /verif/seeded/<name>/.
set -u
P=$1; NAME=${2:-$1}; SRC=/tmp/seed_out/$P; WT=/tmp/wt/$P
export PATH=/opt/veriftools/go1.26.8/bin:$PATH GOTOOLCHAIN=local GOFLAGS=-mod=mod GOPROXY=off
[ -f $SRC/patch.diff ] || { echo "no patch"; exit 2; }
DEMO=$(ls $SRC/demo_* | head -1)
DIR=$(grep -o 'queueing\|[a-z0-9/]*' /dev/null; python3 - "$DEMO" <<'PY'
import re,sys
s=open(sys.argv[1]).read()
m=re.search(r'go test[^\n]*?(\./[A-Za-z0-9_/]+)/?\s*$', s, re.M) or re.search(r'(\./[A-Za-z0-9_/]+)', s)
print(m.group(1) if m else '')
PY
)
echo "demo=$DEMO dir=$DIR"
cd $WT && git checkout -q . && git clean -fdq
TOUCHED=$(grep '^+++ b/' $SRC/patch.diff | sed 's|+++ b/||' | xargs -n1 dirname | sort -u | sed 's|^|./|')
cp $DEMO $WT/$DIR/zz_seed_demo_test.go 2>/dev/null || { echo "cannot place demo in $DIR"; }
RUN=$(python3 - "$DEMO" <<'PY'
import re,sys
s=open(sys.argv[1]).read()
m=re.search(r'-run\s+(\S+)', s)
print(m.group(1).strip('\'"') if m else '.')
PY
)
echo "--- demo WITHOUT patch (must pass)"; (cd $WT && go test -count=1 -vet=off -run "$RUN" $DIR 2>&1 | tail -3); R0=${PIPESTATUS[0]}
git apply $SRC/patch.diff || { echo "patch does not apply"; exit 2; }
echo "--- build"; go build ./... 2>&1 | tail -3
echo "--- demo WITH patch (must fail)"; (cd $WT && go test -count=1 -vet=off -run "$RUN" $DIR 2>&1 | tail -6)
rm -f $WT/$DIR/zz_seed_demo_test.go
echo "--- existing tests of touched packages WITH patch (must pass)"; go test -count=1 -vet=off $TOUCHED 2>&1 | tail -5
git checkout -q . && git clean -fdq
echo "--- checks in /repo with patch applied"
cd /repo && git apply $SRC/patch.diff || { echo "patch does not apply to /repo"; exit 2; }
OUT=/verif/out/seed_$NAME.log; : > $OUT
for C in ${CHECKS:-${P%b}}; do (cd /verif && timeout ${SEED_TIMEOUT:-900} ./check $C quick > /verif/out/seed_${NAME}_$C.log 2>&1; echo "check $C exit=$?" | tee -a $OUT; grep -h "^VIOLATION\|^  harness=\|ENGINE-ERROR" /verif/out/seed_${NAME}_$C.log | cut -c1-260 | head -8 | tee -a $OUT); done
cd /repo && git checkout -q -- . && git status --short | head -3
mkdir -p /verif/seeded/$NAME && cp $SRC/patch.diff /verif/seeded/$NAME/ && cp $DEMO /verif/seeded/$NAME/ && cp $SRC/meta.json /verif/seeded/$NAME/agent_meta.json && cp $OUT /verif/seeded/$NAME/check_result.txt
