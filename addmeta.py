#!/usr/bin/env python3
"""addmeta.py <Cxx> <text> <note> [technique] — record MANIFEST texts for a property and regenerate MANIFEST.json."""
import json, sys, subprocess
meta = json.load(open('/verif/manifest_meta.json'))
pid, text, note = sys.argv[1:4]
e = {"text": text, "note": note}
if len(sys.argv) > 4:
    e["technique"] = sys.argv[4]
meta["checks"][pid] = e
json.dump(meta, open('/verif/manifest_meta.json', 'w'), indent=1)
subprocess.check_call(['/verif/gen_manifest.py'])
