#!/bin/bash
# run_all.sh [quick|thorough] [ids...] — run the registered checks one after another, print exit code and wall time per property.
T=${1:-quick}; shift
IDS=${@:-$(ls /verif/harness | grep '^C')}
for c in $IDS; do
  s=$(date +%s)
  timeout ${RUN_ALL_TIMEOUT:-3600} /verif/check $c $T > /verif/out/all_$c.$T.log 2>&1; e=$?
  echo "$c $T exit=$e wall=$(( $(date +%s) - s ))s $(grep -c '^VIOLATION' /verif/out/all_$c.$T.log) violations $(grep -c '^KNOWN-FINDING' /verif/out/all_$c.$T.log) known $(grep -c 'ENGINE-ERROR' /verif/out/all_$c.$T.log) engine-errors"
done
