// Package verifrt is the harness run-time API of the symgo checks.
//
// The symbolic executor (/verif/symgo) intercepts every exported function of
// this package by name; the bodies below are the NATIVE semantics, used when a
// harness is compiled by the Go compiler to replay a solver model against the
// real code: inputs are read, in draw order, from the JSON file named by
// $VERIFRT_REPLAY, observations and failed assertions are printed on stdout.
//
// This package is injected as an overlay (…/internal/verifrt); it is never
// part of /repo.
package verifrt

import (
	"encoding/json"
	"fmt"
	"math/rand"
	"os"
	"runtime"
	"runtime/debug"
	"time"
)

type input struct {
	Name  string `json:"name"`
	Kind  string `json:"kind"`
	Value uint64 `json:"value"`
}

type replayFile struct {
	Harness  string  `json:"harness"`
	Thorough bool    `json:"thorough"`
	Inputs   []input `json:"inputs"`
}

var st struct {
	loaded bool
	rf     replayFile
	next   int
	failed bool // an assertion has failed in this run
}

type stopAfterFailure struct{}

func load() {
	if st.loaded {
		return
	}
	st.loaded = true
	path := os.Getenv("VERIFRT_REPLAY")
	if path == "" {
		return
	}
	b, err := os.ReadFile(path)
	if err != nil {
		fmt.Println("VERIFRT-ERROR cannot read replay file:", err)
		os.Exit(3)
	}
	if err := json.Unmarshal(b, &st.rf); err != nil {
		fmt.Println("VERIFRT-ERROR bad replay file:", err)
		os.Exit(3)
	}
}

type exhausted struct{ name string }

func draw(name string) uint64 {
	load()
	if st.next >= len(st.rf.Inputs) {
		if st.failed {
			// the recorded inputs end where the executor's path ended; after a
			// failed assertion the native run may go on differently: stop here
			panic(stopAfterFailure{})
		}
		panic(exhausted{name})
	}
	in := st.rf.Inputs[st.next]
	st.next++
	if in.Name != name {
		fmt.Printf("VERIFRT-ERROR input #%d: harness draws %q but the replay file has %q\n", st.next-1, name, in.Name)
		os.Exit(3)
	}
	return in.Value
}

func Bool(name string) bool     { return draw(name) != 0 }
func Byte(name string) byte     { return byte(draw(name)) }
func Uint8(name string) uint8   { return uint8(draw(name)) }
func Uint16(name string) uint16 { return uint16(draw(name)) }
func Uint32(name string) uint32 { return uint32(draw(name)) }
func Uint64(name string) uint64 { return draw(name) }
func Uint(name string) uint     { return uint(draw(name)) }
func Int(name string) int       { return int(draw(name)) }
func Int32(name string) int32   { return int32(draw(name)) }
func Int64(name string) int64   { return int64(draw(name)) }

// IntRange draws an int in [lo,hi] (an assumption, not a check).
func IntRange(name string, lo, hi int) int {
	v := int(draw(name))
	Assume(lo <= v && v <= hi)
	return v
}

// Uint64Range draws a uint64 in [lo,hi].
func Uint64Range(name string, lo, hi uint64) uint64 {
	v := draw(name)
	Assume(lo <= v && v <= hi)
	return v
}

// Choice draws a concrete value in [0,n): the executor forks n ways.
func Choice(name string, n int) int { return int(draw(name)) }

type assumeFailed struct{}

// Assume restricts the inputs considered. Natively a false assumption means
// the replay file does not belong to this harness.
func Assume(c bool) {
	if !c {
		panic(assumeFailed{})
	}
}

// Assert is a proof obligation.
func Assert(c bool, label string) {
	if !c {
		st.failed = true
		fmt.Println("ASSERTFAIL " + label)
	}
}

// Cover marks a point that at least one feasible path must reach.
func Cover(label string) { fmt.Println("COVER " + label) }

// Observe records a value for the executor-vs-compiler differential.
func Observe(label string, v any) { fmt.Printf("OBS %s=%v\n", label, v) }

// ExpectPanic runs f and reports whether it panicked.
func ExpectPanic(f func()) (panicked bool) {
	defer func() {
		if r := recover(); r != nil {
			switch r.(type) {
			case exhausted, assumeFailed, stopAfterFailure:
				panic(r)
			}
			panicked = true
		}
	}()
	f()
	return false
}

// Non-branching boolean connectives (the executor builds one term instead of forking).
func And(a, b bool) bool     { return a && b }
func Or(a, b bool) bool      { return a || b }
func Implies(a, b bool) bool { return !a || b }
func Not(a bool) bool        { return !a }

// IteU64 / IteInt select without branching.
func IteU64(c bool, a, b uint64) uint64 {
	if c {
		return a
	}
	return b
}
func IteInt(c bool, a, b int) int {
	if c {
		return a
	}
	return b
}

// Thorough reports the tier of the run.
func Thorough() bool { load(); return st.rf.Thorough }

// Bound selects a size bound by tier.
func Bound(name string, quick, thorough int) int {
	if Thorough() {
		return thorough
	}
	return quick
}

// Concretize forces v (assumed to lie in [lo,hi]) to a concrete value by forking.
func Concretize(v, lo, hi int) int {
	Assume(lo <= v && v <= hi)
	return v
}

// Symbolic reports whether the harness runs under the symbolic executor.
func Symbolic() bool { return false }

// Yield is a scheduling point for the cooperative scheduler; natively it
// invites the Go scheduler to run another goroutine.
func Yield() {
	// perturb the native schedule a little so that repeated replays of a
	// schedule-dependent counterexample see different interleavings
	if rand.Intn(3) == 0 {
		time.Sleep(time.Duration(rand.Intn(40)) * time.Microsecond)
		return
	}
	runtime.Gosched()
}

// Stress returns symbolic under the executor and native in the natively compiled
// replay: a concurrency harness repeats its racy operation many more times
// natively, so that a window the scheduler model found has a chance to open
// under the real Go scheduler. The assertion labels are the same in both.
func Stress(symbolic, native int) int { return native }

// Jitter is a no-op for the symbolic executor (not a scheduling point); natively
// it sleeps a random time up to maxMicros so that repeated replays of a
// schedule-dependent counterexample explore different timings.
func Jitter(maxMicros int) {
	if maxMicros > 0 {
		time.Sleep(time.Duration(rand.Intn(maxMicros+1)) * time.Microsecond)
	}
}

// Main is the entry point of the generated native replay binary:
// <bin> <harness> ; the replay file is named by $VERIFRT_REPLAY.
func Main(harnesses map[string]func()) {
	if len(os.Args) < 2 {
		fmt.Println("VERIFRT-ERROR usage: <bin> <harness>")
		os.Exit(3)
	}
	f := harnesses[os.Args[1]]
	if f == nil {
		fmt.Println("VERIFRT-ERROR unknown harness", os.Args[1])
		os.Exit(3)
	}
	load()
	defer func() {
		if r := recover(); r != nil {
			switch r := r.(type) {
			case exhausted:
				fmt.Println("VERIFRT-ERROR inputs exhausted at", r.name)
				os.Exit(3)
			case assumeFailed:
				fmt.Println("OUTCOME pruned")
				os.Exit(0)
			case stopAfterFailure:
				fmt.Println("OUTCOME stopped-after-failure")
				os.Exit(0)
			}
			fmt.Printf("OUTCOME panic: %v\n", r)
			if os.Getenv("VERIFRT_STACK") != "" {
				fmt.Printf("%s\n", debug.Stack())
			}
			os.Exit(0)
		}
		fmt.Println("OUTCOME ok")
	}()
	f()
}
