#!/usr/bin/env python3
"""gen_asbuilt.py — regenerate the as-built table of DESIGN.md (between the AS-BUILT markers)
from harness/*/spec.json, manifest_meta.json and the last evidence files."""
import json, glob, os, re
meta = json.load(open('/verif/manifest_meta.json'))
rows = []
for sp in sorted(glob.glob('/verif/harness/C*/spec.json')):
    s = json.load(open(sp))
    pid = s['property']
    ev = {}
    try:
        ev = json.load(open(f'/verif/evidence/{pid}.json'))
    except Exception:
        pass
    rows.append(f"\n#### {pid} — as built\n")
    m = meta['checks'].get(pid, {})
    if m.get('text'):
        rows.append(m['text'] + "\n")
    if m.get('note'):
        rows.append("*Note.* " + m['note'] + "\n")
    rows.append("| harness | encoding | bounds | outside the claim |\n|---|---|---|---|")
    for h in s['harnesses']:
        mode = h.get('mode', 'bv')
        extra = []
        if h.get('sched'): extra.append(f"scheduler, preemptions≤{h.get('preempt',2)}")
        if h.get('maporder'): extra.append('map order ' + h['maporder'])
        rows.append(f"| `{h['func']}` | {mode}{'; ' + ', '.join(extra) if extra else ''} | {h.get('bounds','')} | {h.get('outside','')} |")
    if s.get('stubs'):
        rows.append("\nStubs declared by the spec: " + ", ".join(f"`{k}`→{v}" for k, v in s['stubs'].items()))
    if s.get('assumptions'):
        rows.append("\nAssumptions: " + "; ".join(s['assumptions']))
    cov = ev.get('coverage', {})
    if cov:
        rows.append(f"\nLast run recorded in evidence/{pid}.json: tier {ev.get('tier', cov.get('tier','?'))}, {cov.get('evaluations','?')} paths, {cov.get('discharged','?')} obligations discharged, solver queries {cov.get('solver_queries','?')}, solver time {round(cov.get('solver_time_s',0),1)} s, wall {round(ev.get('wall_s',0),1)} s, {cov.get('traces_validated_against_impl','?')} path models replayed natively.")
txt = "\n".join(rows) + "\n"
d = open('/verif/DESIGN.md').read()
a, b = '<!-- BEGIN AS-BUILT -->', '<!-- END AS-BUILT -->'
i, j = d.index(a), d.index(b)
d = d[:i + len(a)] + "\n" + txt + d[j:]
open('/verif/DESIGN.md', 'w').write(d)
print('as-built section:', len(txt), 'bytes,', len(rows), 'lines')
